"""C13 — function-level translator: Python `ast` of the statistics code -> Lean definitions (Generated/C13Fns.lean).

Every assignment the statistics flow through becomes one Lean definition whose body is the Python expression written in
the vocabulary of lean/GlotaranModel/C13Py.lean (one Lean definition per Python / numpy operation).  The translator
infers a type for every sub-expression (Python int -> Int, Python float / numpy double -> Rat, a double that went through
sqrt/exp/log -> the number class α, arrays -> Vec / Mat / Arr) and inserts the int -> float promotions Python performs.

Source the translator cannot translate never crashes the check and never becomes a default: the definition is emitted as
`Py.untranslatable "<reason>"` (type `Py.Untranslatable`), so the theorem that ties it to the model does not type-check.
"""
from __future__ import annotations

import ast
import hashlib
import textwrap
from fractions import Fraction
from pathlib import Path


class Untranslatable(Exception):
    pass


LEAN_TYPE = {
    "int": "Int", "float": "Rat", "npfloat": "Rat", "real": "α", "vec": "Vec", "rvec": "List α", "bvec": "List Bool",
    "shape": "List Int", "mat": "Mat", "arr": "Py.Arr", "bool": "Bool", "strlist": "List String", "ilist": "List Int",
}


class T:
    """typed Lean code; `partial`: the value is an `Option` (ZeroDivisionError upstream)"""

    def __init__(self, code, ty, partial=False, extra=None):
        self.code, self.ty, self.partial, self.extra = code, ty, partial, extra

    def lean_type(self):
        t = LEAN_TYPE[self.ty]
        return f"Option {t}" if self.partial and " " not in t else f"Option ({t})" if self.partial else t


def lean_str(s):
    return '"' + s.replace("\\", "\\\\").replace('"', '\\"').replace("\n", " ") + '"'


def rat_lit(x):
    f = Fraction(x)
    return f"({f.numerator} : Rat)" if f.denominator == 1 else f"({f.numerator} / {f.denominator} : Rat)"


class Fn:
    """translation context of one Python function"""

    def __init__(self, prefix, record, alpha, inputs, patterns=(), objs=None, sqrt_ok=False):
        self.prefix = prefix          # prefix of the generated definitions
        self.record = record          # Lean type of the input record (without its type argument)
        self.alpha = alpha            # "α" (record depends on the number class), a plain type variable name, or None
        self.inputs = inputs          # unparse(expr) -> T
        self.patterns = list(patterns)    # callables(node, fn, env) -> T | None
        self.assigned = []            # (key, ast expr, lineno) in source order
        self.defs = {}                # key -> T (reference to the emitted definition) | Untranslatable
        self.out = []                 # emitted Lean definitions
        self.counter = 0
        self.objs = objs or {}
        self.sqrt_ok = sqrt_ok            # the function may use the number class although its record does not carry it
        self.alpha_defs = set()

    # -- signature of a generated definition ------------------------------------------------------------
    def needs_alpha(self, code):
        return self.alpha == "α" or "α" in code or any(n in code for n in self.alpha_defs)

    def binder(self, code=""):
        if self.alpha == "α":
            return "{α : Type} [SNum α] (i : Py." + self.record + " α)"
        rec = "(i : Py." + self.record + (" " + self.alpha if self.alpha else "") + ")"
        out = ("{" + self.alpha + " : Type} " if self.alpha else "")
        if self.sqrt_ok and self.needs_alpha(code):
            out += "{α : Type} [SNum α] "
        return out + rec

    def fresh(self):
        self.counter += 1
        return f"v{self.counter}"


# ----------------------------------------------------------------------------------------------------------
# expressions
# ----------------------------------------------------------------------------------------------------------
def lift(fn, args, build, result_partial=False):
    """apply `build(codes) -> (code, ty)` to the argument codes; `Option` arguments are bound first"""
    binds, codes = [], []
    for a in args:
        if a.partial:
            v = fn.fresh()
            binds.append((v, a.code))
            codes.append(v)
        else:
            codes.append(a.code)
    code, ty = build(codes)
    partial = result_partial
    if binds:
        if not result_partial:
            code = f"some ({code})"
        for v, c in reversed(binds):
            code = f"Option.bind ({c}) (fun {v} => {code})"
        partial = True
    return T(code, ty, partial)


def to_rat(code, ty):
    if ty == "int":
        return f"(({code} : Int) : Rat)"
    if ty in ("float", "npfloat"):
        return code
    raise Untranslatable(f"cannot use a value of type {ty} as a double")


def to_real(code, ty):
    if ty == "real":
        return code
    return f"(C11.Num.ofRat {to_rat(code, ty)} : α)"


def const_int(node):
    if isinstance(node, ast.Constant) and isinstance(node.value, int) and not isinstance(node.value, bool):
        return node.value
    return None


def tr(fn, node, env):
    """translate an expression; env: local names -> T"""
    src = ast.unparse(node)
    if src in fn.inputs:
        return fn.inputs[src]
    for p in fn.patterns:
        r = p(node, fn, env)
        if r is not None:
            return r
    if isinstance(node, ast.Constant):
        v = node.value
        if isinstance(v, bool):
            return T("true" if v else "false", "bool")
        if isinstance(v, int):
            return T(f"({v} : Int)", "int")
        if isinstance(v, float):
            return T(rat_lit(v), "float")
        raise Untranslatable(f"constant {v!r}")
    if isinstance(node, ast.Name):
        if node.id in env:
            return env[node.id]
        return resolve(fn, node.id, node.lineno)
    if isinstance(node, ast.Subscript):
        return tr_subscript(fn, node, env)
    if isinstance(node, ast.Attribute):
        return tr_attribute(fn, node, env)
    if isinstance(node, ast.BinOp):
        return tr_binop(fn, node, env)
    if isinstance(node, ast.UnaryOp) and isinstance(node.op, ast.USub):
        a = tr(fn, node.operand, env)
        if a.ty in ("int", "float", "npfloat"):
            return lift(fn, [a], lambda c: (f"(-{c[0]})", a.ty))
        raise Untranslatable(f"unary minus on {a.ty}")
    if isinstance(node, ast.Compare):
        return tr_compare(fn, node, env)
    if isinstance(node, ast.Call):
        return tr_call(fn, node, env)
    if isinstance(node, ast.IfExp):
        return tr_ifexp(fn, node, env)
    raise Untranslatable(f"expression `{src[:80]}` ({type(node).__name__})")


def key_of_target(node):
    """the name under which an assignment target is recorded"""
    if isinstance(node, ast.Name):
        return node.id
    if isinstance(node, ast.Subscript) and isinstance(node.slice, ast.Constant) and isinstance(node.slice.value, str):
        base = ast.unparse(node.value)
        if base == "result_args":
            return "result_args:" + node.slice.value
        if base.endswith(".attrs"):
            return "attrs:" + node.slice.value
    return None


def resolve(fn, key, lineno):
    """reference to the definition generated for the latest assignment of `key` before line `lineno`"""
    cands = [(k, e, ln) for (k, e, ln) in fn.assigned if k == key and ln < lineno]
    if not cands:
        raise Untranslatable(f"`{key}` is read before any assignment the translator follows")
    k, e, ln = cands[-1]
    if any(k2 == key and ln2 != ln for (k2, _, ln2) in fn.assigned):
        raise Untranslatable(f"`{key}` is assigned more than once")
    return define(fn, key, e, ln)


def def_name(fn, key):
    return fn.prefix + "_" + key.split(":")[-1]


def define(fn, key, expr, lineno):
    if key in fn.defs:
        d = fn.defs[key]
        if isinstance(d, Untranslatable):
            raise Untranslatable(f"depends on {def_name(fn, key)}: {d}")
        return d
    name = def_name(fn, key)
    try:
        if isinstance(expr, T):
            t = expr
        else:
            t = tr(fn, expr, {})
        if t.ty not in LEAN_TYPE:
            raise Untranslatable(f"value of kind {t.ty} assigned to `{key}`")
    except Untranslatable as e:
        fn.defs[key] = e
        fn.out.append(f"/-- line {lineno}: not translated -/\ndef {name} : Py.Untranslatable :=\n  Py.untranslatable {lean_str(str(e))}\n")
        raise Untranslatable(f"{name}: {e}")
    src = expr.src if isinstance(expr, T) and hasattr(expr, "src") else (ast.unparse(expr) if not isinstance(expr, T) else "")
    doc = " ".join(src.split())
    fn.out.append(f"/-- line {lineno}: `{doc[:160]}` -/\ndef {name} {fn.binder(t.code)} : {t.lean_type()} :=\n  {t.code}\n")
    if fn.alpha != "α" and fn.sqrt_ok and fn.needs_alpha(t.code):
        fn.alpha_defs.add(name)
        ref = T(f"({name} (α := α) i)", t.ty, t.partial)
    else:
        ref = T(f"({name} i)", t.ty, t.partial)
    fn.defs[key] = ref
    return ref


def tr_subscript(fn, node, env):
    key = key_of_target(node)
    if key is not None and (key.startswith("result_args:") or key.startswith("attrs:")):
        return resolve(fn, key, node.lineno)
    base = tr(fn, node.value, env)
    k = const_int(node.slice)
    if base.ty == "shape" and k is not None and k >= 0:
        return lift(fn, [base], lambda c: (f"(Py.idx {c[0]} {k})", "int"))
    idx = tr(fn, node.slice, env)
    if idx.ty == "bvec" and base.ty == "vec":
        return lift(fn, [idx, base], lambda c: (f"(Py.maskList {c[0]} {c[1]})", "vec"))
    if idx.ty == "bvec" and base.ty == "arr":
        return lift(fn, [base, idx], lambda c: (f"(Py.Arr.mask {c[0]} {c[1]})", "arr"))
    raise Untranslatable(f"subscript `{ast.unparse(node)[:60]}` ({base.ty}[{idx.ty}])")


def tr_attribute(fn, node, env):
    src = ast.unparse(node)
    if src == "np.finfo(float).eps":
        return T("Py.finfoEps", "npfloat")
    base = tr(fn, node.value, env)
    a = node.attr
    if a == "size" and base.ty == "vec":
        return lift(fn, [base], lambda c: (f"(Py.size {c[0]})", "int"))
    if a == "shape" and base.ty == "mat":
        return lift(fn, [base], lambda c: (f"(Py.shapeMat {c[0]})", "shape"))
    if a == "shape" and base.ty == "arr":
        return lift(fn, [base], lambda c: (f"(Py.Arr.shape {c[0]})", "shape"))
    if a == "T" and base.ty == "arr":
        return lift(fn, [base], lambda c: (f"(Py.Arr.T {c[0]})", "arr"))
    if a == "data" and base.ty in ("npfloat", "real"):
        return base             # 0-d DataArray -> its ndarray
    if base.ty.startswith("obj:") and (base.ty, a) in fn.objs:
        acc, ty = fn.objs[(base.ty, a)]
        return T(f"(i.{acc} {base.code})", ty)
    raise Untranslatable(f"attribute `.{a}` of a value of type {base.ty}")


ARITH = {ast.Add: "+", ast.Sub: "-", ast.Mult: "*"}
NUM_OP = {ast.Add: "add", ast.Sub: "sub", ast.Mult: "mul"}


def tr_binop(fn, node, env):
    op = type(node.op)
    if op is ast.Pow:
        k = const_int(node.right)
        if k is None or k < 0:
            raise Untranslatable(f"power with exponent `{ast.unparse(node.right)}`")
        a = tr(fn, node.left, env)
        if a.ty == "vec":
            return lift(fn, [a], lambda c: (f"(Py.powVec {c[0]} {k})", "vec"))
        if a.ty == "mat":
            return lift(fn, [a], lambda c: (f"(Py.powMat {c[0]} {k})", "mat"))
        if a.ty in ("int", "float", "npfloat"):
            return lift(fn, [a], lambda c: (f"({c[0]} ^ {k})", a.ty))
        raise Untranslatable(f"power of a value of type {a.ty}")
    a, b = tr(fn, node.left, env), tr(fn, node.right, env)
    if op is ast.MatMult:
        if a.ty == "arr" and b.ty == "arr":
            return lift(fn, [a, b], lambda c: (f"(Py.Arr.matmul {c[0]} {c[1]})", "arr"))
        raise Untranslatable(f"`@` of {a.ty} and {b.ty}")
    scalars = ("int", "float", "npfloat")
    if op in ARITH:
        s = ARITH[op]
        if a.ty == "int" and b.ty == "int":
            return lift(fn, [a, b], lambda c: (f"({c[0]} {s} {c[1]})", "int"))
        if a.ty in scalars and b.ty in scalars:
            ty = "npfloat" if "npfloat" in (a.ty, b.ty) else "float"
            return lift(fn, [a, b], lambda c: (f"({to_rat(c[0], a.ty)} {s} {to_rat(c[1], b.ty)})", ty))
        if "real" in (a.ty, b.ty) and a.ty in scalars + ("real",) and b.ty in scalars + ("real",):
            return lift(fn, [a, b], lambda c: (f"(C11.Num.{NUM_OP[op]} {to_real(c[0], a.ty)} {to_real(c[1], b.ty)})", "real"))
        if op is ast.Mult and a.ty == "real" and b.ty == "rvec":
            return lift(fn, [a, b], lambda c: (f"(Py.scaleVec {c[0]} {c[1]})", "rvec"))
        if op is ast.Mult and a.ty == "rvec" and b.ty == "real":
            return lift(fn, [a, b], lambda c: (f"(Py.scaleVec {c[1]} {c[0]})", "rvec"))
        raise Untranslatable(f"`{s}` of {a.ty} and {b.ty}")
    if op is ast.Div:
        if a.ty == "arr" and b.ty == "vec":
            return lift(fn, [a, b], lambda c: (f"(Py.Arr.divVec {c[0]} {c[1]})", "arr"))
        if a.ty in scalars and b.ty in scalars:
            rc = node.right.value if isinstance(node.right, ast.Constant) and isinstance(node.right.value, (int, float)) else None
            if "npfloat" in (a.ty, b.ty) or (rc is not None and not isinstance(rc, bool) and rc != 0):
                # numpy double: total (inf / nan instead of an exception; the model does not follow non-finite values)
                ty = "npfloat" if "npfloat" in (a.ty, b.ty) else "float"     # division by a non-zero literal never raises
                return lift(fn, [a, b], lambda c: (f"({to_rat(c[0], a.ty)} / {to_rat(c[1], b.ty)})", ty))
            return lift(fn, [a, b], lambda c: (f"(Py.pydiv {to_rat(c[0], a.ty)} {to_rat(c[1], b.ty)})", "float"), result_partial=True)
        raise Untranslatable(f"`/` of {a.ty} and {b.ty}")
    raise Untranslatable(f"operator {op.__name__}")


def tr_compare(fn, node, env):
    if len(node.ops) != 1:
        raise Untranslatable("chained comparison")
    op, left, right = node.ops[0], node.left, node.comparators[0]
    if isinstance(op, ast.In) and isinstance(left, ast.Constant) and isinstance(left.value, str):
        base = ast.unparse(right)
        key = f"{base}.{left.value}"
        if key in fn.inputs and fn.inputs[key].ty.startswith("opt:"):
            return T(fn.inputs[key].code, "has:" + fn.inputs[key].ty[4:], extra=key)
        raise Untranslatable(f"membership test `{ast.unparse(node)}`")
    a, b = tr(fn, left, env), tr(fn, right, env)
    scalars = ("int", "float", "npfloat")
    if isinstance(op, (ast.Gt, ast.Lt)):
        if isinstance(op, ast.Gt) and a.ty == "vec" and b.ty in scalars:
            return lift(fn, [a, b], lambda c: (f"(Py.gtScalar {c[0]} {to_rat(c[1], b.ty)})", "bvec"))
        if "real" in (a.ty, b.ty) and a.ty in scalars + ("real",) and b.ty in scalars + ("real",):
            if a.partial or b.partial:
                raise Untranslatable("comparison of partial values")
            x, y = to_real(a.code, a.ty), to_real(b.code, b.ty)
            return T("", "cmpreal", extra=(x, y) if isinstance(op, ast.Lt) else (y, x))
    raise Untranslatable(f"comparison `{ast.unparse(node)[:60]}` ({a.ty} vs {b.ty})")


def tr_call(fn, node, env):
    f = ast.unparse(node.func)
    args, kws = node.args, {k.arg: k.value for k in node.keywords}
    if f == "float" and len(args) == 1 and not kws:
        a = tr(fn, args[0], env)
        if a.ty in ("npfloat", "float"):
            return T(a.code, "float", a.partial)
        if a.ty == "int":
            return lift(fn, [a], lambda c: (to_rat(c[0], "int"), "float"))
        if a.ty == "real":
            return a
        raise Untranslatable(f"float() of {a.ty}")
    if f == "len" and len(args) == 1 and not kws:
        a = tr(fn, args[0], env)
        if a.ty in ("vec", "strlist", "ilist", "bvec") or a.ty.startswith("list:"):
            return lift(fn, [a], lambda c: (f"(Py.len {c[0]})", "int"))
        raise Untranslatable(f"len() of {a.ty}")
    if f == "range" and len(args) == 1 and not kws:
        a = tr(fn, args[0], env)
        if a.ty == "int":
            return lift(fn, [a], lambda c: (f"(Py.range {c[0]})", "ilist"))
        raise Untranslatable(f"range() of {a.ty}")
    if f == "max" and len(args) == 1 and not kws:
        a = tr(fn, args[0], env)
        if a.ty == "shape":
            return lift(fn, [a], lambda c: (f"(Py.maxInt {c[0]})", "int"))
        raise Untranslatable(f"max() of {a.ty}")
    if f == "sum" and len(args) == 1 and not kws and isinstance(args[0], ast.GeneratorExp):
        g = args[0]
        if len(g.generators) != 1 or g.generators[0].ifs or not isinstance(g.generators[0].target, ast.Name):
            raise Untranslatable("generator expression with several loops / conditions")
        it = tr(fn, g.generators[0].iter, env)
        if it.partial:
            raise Untranslatable("iteration over a partial value")
        var = g.generators[0].target.id
        if it.ty == "ilist":
            elem = T(var, "int")
        elif it.ty.startswith("list:"):
            elem = T(var, "obj:" + it.ty[5:])
        else:
            raise Untranslatable(f"iteration over {it.ty}")
        body = tr(fn, g.elt, {**env, var: elem})
        if body.ty != "int" or body.partial:
            raise Untranslatable(f"sum() of values of type {body.ty}")
        return T(f"(Py.sumInt (List.map (fun {var} => {body.code}) {it.code}))", "int")
    if f == "np.sum" and len(args) == 1 and not kws:
        a = tr(fn, args[0], env)
        if a.ty == "vec":
            return lift(fn, [a], lambda c: (f"(Py.sumVec {c[0]})", "npfloat"))
        if a.ty == "mat":
            return lift(fn, [a], lambda c: (f"(Py.sumMat {c[0]})", "npfloat"))
        raise Untranslatable(f"np.sum of {a.ty}")
    if f == "np.dot" and len(args) == 2 and not kws:
        a, b = tr(fn, args[0], env), tr(fn, args[1], env)
        if a.ty == "vec" and b.ty == "vec":
            return lift(fn, [a, b], lambda c: (f"(Py.npdot {c[0]} {c[1]})", "npfloat"))
        raise Untranslatable(f"np.dot of {a.ty} and {b.ty}")
    if f == "np.sqrt" and len(args) == 1 and not kws:
        a = tr(fn, args[0], env)
        if fn.alpha != "α" and not fn.sqrt_ok:
            raise Untranslatable("np.sqrt in a function translated without the number class")
        if a.ty in ("float", "npfloat"):
            return lift(fn, [a], lambda c: (f"(Py.sqrtRat {c[0]} : α)", "real"))
        if a.ty == "vec":
            return lift(fn, [a], lambda c: (f"(Py.sqrtVec {c[0]} : List α)", "rvec"))
        if a.ty == "real":
            return lift(fn, [a], lambda c: (f"(SNum.sqrt {c[0]})", "real"))
        raise Untranslatable(f"np.sqrt of {a.ty}")
    if f in ("np.abs", "np.exp", "np.log") and len(args) == 1 and not kws:
        a = tr(fn, args[0], env)
        if a.ty == "real":
            return lift(fn, [a], lambda c: (f"(C11.Num.{f[3:]} {c[0]})", "real"))
        raise Untranslatable(f"{f} of {a.ty}")
    if f == "_log_value" and len(args) == 1 and not kws:
        a = tr(fn, args[0], env)
        if a.ty == "real":
            return lift(fn, [a], lambda c: (f"(C11.logFin {c[0]})", "real"))
        raise Untranslatable(f"_log_value of {a.ty}")
    if f == "np.diag" and len(args) == 1 and not kws:
        a = tr(fn, args[0], env)
        if a.ty == "arr":
            return lift(fn, [a], lambda c: (f"(Py.Arr.diag {c[0]})", "vec"))
        raise Untranslatable(f"np.diag of {a.ty}")
    if isinstance(node.func, ast.Attribute):
        m = node.func.attr
        if m == "max" and not args and set(kws) == {"initial"}:
            a, x = tr(fn, node.func.value, env), tr(fn, kws["initial"], env)
            if a.ty == "vec" and x.ty in ("int", "float", "npfloat"):
                return lift(fn, [a, x], lambda c: (f"(Py.maxInitial {c[0]} {to_rat(c[1], x.ty)})", "npfloat"))
            raise Untranslatable(f".max(initial=) of {a.ty}")
        if m == "sum" and not args and not kws:
            a = tr(fn, node.func.value, env)
            if a.ty == "vec":
                return lift(fn, [a], lambda c: (f"(Py.sumVec {c[0]})", "npfloat"))
            if a.ty == "mat":
                return lift(fn, [a], lambda c: (f"(Py.sumMat {c[0]})", "npfloat"))
            raise Untranslatable(f".sum() of {a.ty}")
    raise Untranslatable(f"call `{ast.unparse(node)[:80]}`")


def tr_ifexp(fn, node, env):
    c = tr_cond(fn, node.test, env)
    return tr_choice(fn, c, lambda e: tr(fn, node.body, e), lambda e: tr(fn, node.orelse, e), env)


def tr_cond(fn, test, env):
    c = tr(fn, test, env)
    if c.ty not in ("bool", "cmpreal") and not c.ty.startswith("has:"):
        raise Untranslatable(f"condition `{ast.unparse(test)[:60]}` of type {c.ty}")
    return c


def tr_choice(fn, c, then, orelse, env):
    """`A if c else B` / if-else statement yielding a value"""
    if c.ty.startswith("has:"):
        # `"name" in dataset`: inside the true branch `dataset.name` is the value that is present
        key, inner = c.extra, c.ty[4:]
        var = fn.fresh()
        saved = fn.inputs[key]
        fn.inputs[key] = T(var, inner)
        try:
            a = then(env)
        finally:
            fn.inputs[key] = saved
        b = orelse(env)
        if a.ty != b.ty or a.partial or b.partial:
            raise Untranslatable(f"branches of different type ({a.ty} / {b.ty})")
        return T(f"(match {c.code} with | some {var} => {a.code} | none => {b.code})", a.ty)
    a, b = then(env), orelse(env)
    if a.partial or b.partial:
        raise Untranslatable("partial value in a branch")
    if c.ty == "cmpreal":
        x, y = c.extra
        return T(f"(C11.Num.ifLt {x} {y} {to_real(a.code, a.ty)} {to_real(b.code, b.ty)})", "real")
    if a.ty != b.ty:
        raise Untranslatable(f"branches of different type ({a.ty} / {b.ty})")
    return T(f"(if {c.code} then {a.code} else {b.code})", a.ty)


# ----------------------------------------------------------------------------------------------------------
# statements
# ----------------------------------------------------------------------------------------------------------
def collect(fn, stmts, descend=lambda test: False):
    """record the assignments of a statement list (into `if` bodies whose test `descend` accepts)"""
    for s in stmts:
        if isinstance(s, ast.Assign) and len(s.targets) == 1:
            t = s.targets[0]
            k = key_of_target(t)
            if k is not None:
                fn.assigned.append((k, s.value, s.lineno))
            elif isinstance(t, ast.Tuple):
                for pos, el in enumerate(t.elts):
                    if isinstance(el, ast.Name):
                        fn.assigned.append((el.id, ("tuple", s.value, pos, len(t.elts)), s.lineno))
        elif isinstance(s, ast.AugAssign):
            k = key_of_target(s.target)
            if k is not None:
                fn.assigned.append((k, ("aug",), s.lineno))
                fn.assigned.append((k, ("aug",), s.lineno + 0.5))
        elif isinstance(s, ast.If) and descend(s.test):
            collect(fn, s.body, descend)


def want(fn, key, lineno=10 ** 9):
    """emit the definition for `key` (and what it depends on); never raises"""
    try:
        t = resolve_any(fn, key, lineno)
        return t
    except Untranslatable as e:
        if key not in fn.defs:
            fn.defs[key] = e
            fn.out.append(f"/-- not translated -/\ndef {def_name(fn, key)} : Py.Untranslatable :=\n  Py.untranslatable {lean_str(str(e))}\n")
        return None


def resolve_any(fn, key, lineno):
    cands = [(k, e, ln) for (k, e, ln) in fn.assigned if k == key and ln < lineno]
    if not cands:
        raise Untranslatable(f"no assignment to `{key.split(':')[-1]}` found")
    return resolve(fn, key, lineno)


def find_function(tree, cls, name):
    for node in ast.walk(tree):
        if isinstance(node, ast.ClassDef) and node.name == cls:
            for f in node.body:
                if isinstance(f, ast.FunctionDef) and f.name == name:
                    return f
    return None


# -- np.linalg.svd unpacking ------------------------------------------------------------------------------
def svd_pattern(node, fn, env):
    return None


def tuple_element(fn, spec):
    """`_, s, vt = np.linalg.svd(jacobian, full_matrices=False)`"""
    _, call, pos, n = spec
    src = ast.unparse(call)
    if src == "np.linalg.svd(jacobian, full_matrices=False)" and n == 3:
        if pos == 1:
            return T("i.svd_s", "vec")
        if pos == 2:
            return T("i.svd_vt", "arr")
    raise Untranslatable(f"tuple unpacking of `{src[:80]}`")


# patch resolve for tuple / augmented assignments
_define_plain = define


def define(fn, key, expr, lineno):       # noqa: F811
    if isinstance(expr, tuple):
        if expr[0] == "tuple":
            if key in fn.defs and not isinstance(fn.defs[key], Untranslatable):
                return fn.defs[key]
            try:
                t = tuple_element(fn, expr)
            except Untranslatable as e:
                fn.defs[key] = e
                raise
            fn.defs[key] = t
            return t
        raise Untranslatable(f"`{key}` is updated in place")
    return _define_plain(fn, key, expr, lineno)


# -- the standard-error loop ------------------------------------------------------------------------------
def stored_value(fn, stmts, env, target_attr, obj_src):
    """value a statement list stores in `<obj>.<target_attr>` (if / else trees of single stores)"""
    aliases = set()
    for s in stmts:
        if isinstance(s, ast.Assign) and len(s.targets) == 1 and isinstance(s.targets[0], ast.Name) and ast.unparse(s.value) == obj_src:
            aliases.add(s.targets[0].id)
            continue
        if isinstance(s, ast.Assign) and len(s.targets) == 1 and isinstance(s.targets[0], ast.Attribute) and s.targets[0].attr == target_attr:
            base = ast.unparse(s.targets[0].value)
            if base == obj_src or base in env.get("__aliases__", set()) | aliases:
                return tr(fn, s.value, env)
            raise Untranslatable(f"store into `{base}.{target_attr}`")
        if isinstance(s, ast.If):
            if not s.orelse:
                raise Untranslatable("`if` without `else` around the store")
            e2 = {**env, "__aliases__": env.get("__aliases__", set()) | aliases}
            c = tr_cond(fn, s.test, e2)
            return tr_choice(fn, c, lambda e: stored_value(fn, s.body, e, target_attr, obj_src),
                             lambda e: stored_value(fn, s.orelse, e, target_attr, obj_src), e2)
        if isinstance(s, (ast.Expr, ast.Pass)):
            continue
        raise Untranslatable(f"statement `{ast.unparse(s)[:60]}` in the loop body")
    raise Untranslatable(f"no store into `.{target_attr}`")


def alias_pattern(obj_src, table):
    """`parameter.value` where `parameter = self._parameters.get(label)` (or the call written out)"""
    def p(node, fn, env):
        if isinstance(node, ast.Attribute) and node.attr in table:
            base = ast.unparse(node.value)
            if base == obj_src or base in env.get("__aliases__", set()):
                return table[node.attr]
        return None
    return p


# -- accumulating for-loop: `acc = 0; for a, b in items: ... acc += e ...; return acc` ------------------------
def block_acc(fn, stmts, env, acc, cur):
    """the value of the accumulator `acc` after the statement list, `cur` being its value before"""
    env = dict(env)
    for s in stmts:
        if isinstance(s, ast.Assign) and len(s.targets) == 1 and isinstance(s.targets[0], ast.Name) and s.targets[0].id != acc:
            env[s.targets[0].id] = tr(fn, s.value, env)
        elif isinstance(s, ast.AugAssign) and isinstance(s.target, ast.Name) and s.target.id == acc and isinstance(s.op, ast.Add):
            v = tr(fn, s.value, env)
            if v.ty != "int" or v.partial:
                raise Untranslatable(f"`{acc} += ` a value of type {v.ty}")
            cur = T(f"({cur.code} + {v.code})", "int")
        elif isinstance(s, ast.If):
            c = tr_cond(fn, s.test, env)
            if c.ty != "bool":
                raise Untranslatable("condition in the accumulating loop")
            a = block_acc(fn, s.body, env, acc, cur)
            b = block_acc(fn, s.orelse, env, acc, cur)
            cur = T(f"(if {c.code} then {a.code} else {b.code})", "int")
        elif isinstance(s, (ast.Expr, ast.Pass)):
            continue
        else:
            raise Untranslatable(f"statement `{ast.unparse(s)[:60]}` in the accumulating loop")
    return cur


# ----------------------------------------------------------------------------------------------------------
# the functions
# ----------------------------------------------------------------------------------------------------------
CR_KEYS = ["number_of_residuals", "number_of_clps", "number_of_free_parameters", "degrees_of_freedom", "chi_square",
           "reduced_chi_square", "root_mean_square_error", "cost"]
COV_KEYS = ["jacobian_sv_square", "threshold", "mask", "covariance_matrix", "standard_errors"]
DS_KEYS = ["size", "attrs:root_mean_square_error", "attrs:weighted_root_mean_square_error"]


def missing(fn, key, why):
    fn.defs[key] = Untranslatable(why)
    fn.out.append(f"/-- not translated -/\ndef {def_name(fn, key)} : Py.Untranslatable :=\n  Py.untranslatable {lean_str(why)}\n")


def translate_create_result(tree):
    fn = Fn("cr", "CreateResultIn", "γ", {
        "self._optimization_result.fun": T("i.res_fun", "vec"),
        "self._optimization_result.x": T("i.res_x", "vec"),
        "self._optimization_groups": T("i.groups", "list:group"),
        "self.calculate_penalty()": T("i.calculate_penalty", "vec"),
    }, objs={("obj:group", "number_of_clps"): ("number_of_clps", "int")}, sqrt_ok=True)
    f = find_function(tree, "Optimizer", "create_result")
    if f is None:
        for k in CR_KEYS:
            missing(fn, "result_args:" + k, "Optimizer.create_result not found")
        return fn
    collect(fn, f.body, descend=lambda test: ast.unparse(test) == "success")
    # keys given in the dict literal `result_args = {...}`
    for s in f.body:
        if isinstance(s, ast.Assign) and ast.unparse(s.targets[0]) == "result_args" and isinstance(s.value, ast.Dict):
            for k, v in zip(s.value.keys, s.value.values):
                if isinstance(k, ast.Constant) and k.value in CR_KEYS:
                    fn.assigned.append(("result_args:" + k.value, v, s.lineno))
    fn.assigned.sort(key=lambda x: x[2])
    for k in CR_KEYS:
        want(fn, "result_args:" + k)
    return fn


def translate_covariance(tree):
    fn = Fn("cov", "CovarianceIn", "α", {
        "jacobian.shape": T("i.jacobian_shape", "shape"),
        "root_mean_square_error": T("i.root_mean_square_error", "real"),
    })
    f = find_function(tree, "Optimizer", "calculate_covariance_matrix_and_standard_errors")
    se = Fn("se", "StdErrIn", "α", {"error": T("i.error", "real")})
    if f is None:
        for k in COV_KEYS:
            missing(fn, k, "Optimizer.calculate_covariance_matrix_and_standard_errors not found")
        missing(se, "stored", "Optimizer.calculate_covariance_matrix_and_standard_errors not found")
        return fn, se
    collect(fn, f.body)
    for k in COV_KEYS:
        want(fn, k)
    # what the function returns must be the covariance matrix that was translated
    rets = [s for s in f.body if isinstance(s, ast.Return)]
    cm = fn.defs.get("covariance_matrix")
    if len(rets) != 1 or rets[0] is not f.body[-1] or ast.unparse(rets[0].value) != "covariance_matrix":
        missing(fn, "returned", "the function does not end in `return covariance_matrix`")
    elif cm is None or isinstance(cm, Untranslatable) or cm.ty != "arr" or cm.partial:
        missing(fn, "returned", "depends on cov_covariance_matrix")
    else:
        fn.out.append("/-- `return covariance_matrix` -/\ndef cov_returned " + fn.binder() + " : Py.Arr :=\n  (cov_covariance_matrix i)\n")
        fn.defs["returned"] = T("(cov_returned i)", "arr")
    # the loop
    obj = "self._parameters.get(label)"
    loops = [s for s in f.body if isinstance(s, ast.For)]
    try:
        if len(loops) != 1:
            raise Untranslatable(f"{len(loops)} for-loops in the function")
        lp = loops[0]
        if ast.unparse(lp.target) != "(label, error)" or ast.unparse(lp.iter) != "zip(self._free_parameter_labels, standard_errors)" or lp.orelse:
            raise Untranslatable(f"loop header `for {ast.unparse(lp.target)} in {ast.unparse(lp.iter)[:80]}`")
        se.patterns.append(alias_pattern(obj, {"non_negative": T("i.non_negative", "bool"), "value": T("i.value", "real")}))
        t = stored_value(se, lp.body, {}, "standard_error", obj)
        if t.ty != "real" or t.partial:
            t = T(to_real(t.code, t.ty), "real")
        t.src = "value stored in parameter.standard_error by one pass of the loop body"
        define(se, "stored", t, lp.lineno)
    except Untranslatable as e:
        if "stored" not in se.defs:
            missing(se, "stored", str(e))
    return fn, se


def translate_dataset_rmse(tree):
    fn = Fn("ds", "DatasetIn", None, {
        "result_dataset.residual": T("i.residual", "mat"),
        "result_dataset.weighted_residual": T("i.weighted_residual", "opt:mat"),
    }, sqrt_ok=True)
    f = find_function(tree, "OptimizationGroup", "create_result_data")
    if f is None:
        for k in DS_KEYS:
            missing(fn, k, "OptimizationGroup.create_result_data not found")
        return fn
    loops = [s for s in f.body if isinstance(s, ast.For)]
    body = loops[-1].body if loops else f.body
    collect(fn, body)
    for k in DS_KEYS:
        want(fn, k)
    return fn


def translate_clps(tree_mp, tree_og):
    outs = []
    # linked
    fn = Fn("linked", "LinkedClpsIn", None, {"self._data_provider.aligned_global_axis": T("i.aligned_global_axis", "vec")})

    def container(node, fn_, env):
        if isinstance(node, ast.Attribute) and node.attr == "clp_labels" and isinstance(node.value, ast.Call) \
                and ast.unparse(node.value.func) == "self.get_aligned_matrix_container" and len(node.value.args) == 1 and not node.value.keywords:
            a = tr(fn_, node.value.args[0], env)
            if a.ty == "int" and not a.partial:
                return T(f"(i.aligned_clp_labels {a.code})", "strlist")
        return None
    fn.patterns.append(container)
    f = find_function(tree_mp, "MatrixProviderLinked", "number_of_clps")
    translate_returning(fn, f, "MatrixProviderLinked.number_of_clps")
    outs.append(fn)
    # unlinked
    fu = Fn("unlinked", "UnlinkedClpsIn", "δ", {})
    f = find_function(tree_mp, "MatrixProviderUnlinked", "number_of_clps")
    try:
        if f is None:
            raise Untranslatable("MatrixProviderUnlinked.number_of_clps not found")
        body = [s for s in f.body if not (isinstance(s, ast.Expr) and isinstance(s.value, ast.Constant))]
        if len(body) != 3 or not (isinstance(body[0], ast.Assign) and isinstance(body[1], ast.For) and isinstance(body[2], ast.Return)):
            raise Untranslatable("not of the form `acc = 0; for ...: ...; return acc`")
        acc = ast.unparse(body[0].targets[0])
        if ast.unparse(body[0].value) != "0" or ast.unparse(body[2].value) != acc:
            raise Untranslatable("accumulator is not initialised with 0 and returned")
        lp = body[1]
        if ast.unparse(lp.target) != "(dataset_label, dataset_model)" or ast.unparse(lp.iter) != "self.group.dataset_models.items()" or lp.orelse:
            raise Untranslatable(f"loop header `for {ast.unparse(lp.target)} in {ast.unparse(lp.iter)[:80]}`")
        fu.inputs.update({
            "has_dataset_model_global_model(dataset_model)": T("(i.has_global_model d)", "bool"),
            "self.get_matrix_container(dataset_label).clp_labels": T("(i.model_clp_labels d)", "strlist"),
            "self.get_global_matrix_container(dataset_label).clp_labels": T("(i.global_clp_labels d)", "strlist"),
            "self._data_provider.get_global_axis(dataset_label)": T("(i.global_axis d)", "vec"),
        })

        def prepared(node, fn_, env):
            if isinstance(node, ast.Attribute) and node.attr == "clp_labels" and isinstance(node.value, ast.Call) \
                    and ast.unparse(node.value.func) == "self.get_prepared_matrix_container" and len(node.value.args) == 2 \
                    and ast.unparse(node.value.args[0]) == "dataset_label" and not node.value.keywords:
                a = tr(fn_, node.value.args[1], env)
                if a.ty == "int" and not a.partial:
                    return T(f"(i.prepared_clp_labels d {a.code})", "strlist")
            return None
        fu.patterns.append(prepared)
        step = block_acc(fu, lp.body, {}, acc, T(acc, "int"))
        t = T(f"List.foldl (fun {acc} d => {step.code}) (0 : Int) i.dataset_models", "int")
        t.src = "nr_of_clps = 0; for dataset_label, dataset_model in self.group.dataset_models.items(): ...; return nr_of_clps"
        define(fu, "number_of_clps", t, f.lineno)
    except Untranslatable as e:
        if "number_of_clps" not in fu.defs:
            missing(fu, "number_of_clps", str(e))
    outs.append(fu)
    return outs


def translate_returning(fn, f, what):
    try:
        if f is None:
            raise Untranslatable(what + " not found")
        collect(fn, f.body)
        rets = [s for s in f.body if isinstance(s, ast.Return)]
        if len(rets) != 1 or rets[0] is not f.body[-1]:
            raise Untranslatable("not a single trailing return")
        fn.assigned.append(("number_of_clps", rets[0].value, rets[0].lineno))
        want(fn, "number_of_clps")
    except Untranslatable as e:
        if "number_of_clps" not in fn.defs:
            missing(fn, "number_of_clps", str(e))


# ----------------------------------------------------------------------------------------------------------
# Result.markdown: which field each row of the report shows, and how
# ----------------------------------------------------------------------------------------------------------
def _shown_field(node):
    """(field, kind) of a cell expression of the general table"""
    if isinstance(node, ast.Attribute) and ast.unparse(node.value) == "self":
        return node.attr, "plain"
    if isinstance(node, ast.JoinedStr) and len(node.values) == 1 and isinstance(node.values[0], ast.FormattedValue):
        fv = node.values[0]
        fmt = ast.unparse(fv.format_spec)[2:-1] if fv.format_spec is not None else ""
        v = fv.value
        if isinstance(v, ast.BoolOp) and isinstance(v.op, ast.Or) and len(v.values) == 2 and ast.unparse(v.values[1]) == "np.nan" \
                and isinstance(v.values[0], ast.Attribute) and ast.unparse(v.values[0].value) == "self":
            return v.values[0].attr, "falsy-to-nan:" + fmt
        if isinstance(v, ast.IfExp) and ast.unparse(v.body) == "np.nan" and isinstance(v.orelse, ast.Attribute) \
                and ast.unparse(v.orelse.value) == "self" and ast.unparse(v.test) == f"self.{v.orelse.attr} is None":
            return v.orelse.attr, "none-to-nan:" + fmt
        if isinstance(v, ast.Attribute) and ast.unparse(v.value) == "self":
            return v.attr, "format:" + fmt
    raise Untranslatable(f"cell `{ast.unparse(node)[:80]}`")


def _inline_helper(node, scope):
    """`helper(self.x)` where `helper` is a function of one argument consisting of a single `return <expr>`: <expr>[arg := self.x]"""
    if not (isinstance(node, ast.Call) and isinstance(node.func, ast.Name) and len(node.args) == 1 and not node.keywords):
        return node
    defs = [d for d in ast.walk(scope) if isinstance(d, ast.FunctionDef) and d.name == node.func.id]
    if len(defs) != 1 or len(defs[0].args.args) != 1:
        return node
    body = [b for b in defs[0].body if not (isinstance(b, ast.Expr) and isinstance(b.value, ast.Constant))]
    if len(body) != 1 or not isinstance(body[0], ast.Return):
        return node
    param, arg = defs[0].args.args[0].arg, node.args[0]

    class Sub(ast.NodeTransformer):
        def visit_Name(self, n):
            return arg if n.id == param else n
    import copy as _copy
    return ast.fix_missing_locations(Sub().visit(_copy.deepcopy(body[0].value)))


def translate_report(tree):
    out, report = [], {}
    f = find_function(tree, "Result", "markdown")
    try:
        if f is None:
            raise Untranslatable("Result.markdown not found")
        rows = None
        for s in ast.walk(f):
            tgt = s.target if isinstance(s, ast.AnnAssign) else s.targets[0] if isinstance(s, ast.Assign) and len(s.targets) == 1 else None
            if tgt is not None and ast.unparse(tgt) == "general_table_rows" and isinstance(s.value, ast.List):
                rows = s.value
        if rows is None:
            raise Untranslatable("no list assigned to general_table_rows")
        items = []
        for r in rows.elts:
            if not (isinstance(r, ast.List) and len(r.elts) == 2 and isinstance(r.elts[0], ast.Constant) and isinstance(r.elts[0].value, str)):
                raise Untranslatable(f"row `{ast.unparse(r)[:80]}`")
            field, kind = _shown_field(_inline_helper(r.elts[1], f))
            items.append((r.elts[0].value, field, kind))
        body = ",\n   ".join(f"({lean_str(a)}, {lean_str(b)}, {lean_str(c)})" for a, b, c in items)
        out.append("/-- rows of the general table of `Result.markdown`: (label, field of the Result, how its value is shown) -/\n"
                   f"def reportRows : List (String × String × String) :=\n  [{body}]\n")
        report["reportRows"] = "ok"
    except Untranslatable as e:
        out.append(f"/-- not translated -/\ndef reportRows : Py.Untranslatable :=\n  Py.untranslatable {lean_str(str(e))}\n")
        report["reportRows"] = "untranslatable: " + str(e)
    try:
        if f is None:
            raise Untranslatable("Result.markdown not found")
        comp = None
        call = None
        for s in ast.walk(f):
            if isinstance(s, ast.Assign) and ast.unparse(s.targets[0]) == "RMSE_rows" and isinstance(s.value, ast.ListComp):
                comp = s.value
            if isinstance(s, ast.Assign) and ast.unparse(s.targets[0]) == "RMSE_table" and isinstance(s.value, ast.Call):
                call = s.value
        if comp is None or call is None or not isinstance(comp.elt, ast.List) or len(comp.elt.elts) != 3:
            raise Untranslatable("RMSE_rows / RMSE_table not of the expected form")
        kws = {k.arg: k.value for k in call.keywords}
        heads = kws.get("headers")
        if not (isinstance(heads, ast.List) and len(heads.elts) == 3 and all(isinstance(h, ast.Constant) for h in heads.elts)):
            raise Untranslatable("headers of the RMSE table")
        if ast.unparse(call.args[0]) != "RMSE_rows" or ast.unparse(comp.generators[0].iter) != "enumerate(self.data.items(), start=1)" \
                or ast.unparse(comp.generators[0].target) != "(index, (label, dataset))":
            raise Untranslatable("iteration of the RMSE table")
        cols = []
        for h, c in zip(heads.elts[1:], comp.elt.elts[1:]):
            if not (isinstance(c, ast.Attribute) and ast.unparse(c.value) == "dataset"):
                raise Untranslatable(f"cell `{ast.unparse(c)[:60]}`")
            cols.append((h.value, c.attr))
        fmt = kws.get("floatfmt")
        fmt = fmt.value if isinstance(fmt, ast.Constant) else "?"
        out.append("/-- columns of the per-dataset RMSE table: (header, attribute of the result dataset); the float format -/\n"
                   "def rmseColumns : List (String × String) :=\n  [" + ", ".join(f"({lean_str(a)}, {lean_str(b)})" for a, b in cols) + "]\n\n"
                   f"def rmseFloatFmt : String := {lean_str(str(fmt))}\n")
        report["rmseColumns"] = "ok"
    except Untranslatable as e:
        out.append(f"/-- not translated -/\ndef rmseColumns : Py.Untranslatable :=\n  Py.untranslatable {lean_str(str(e))}\n\ndef rmseFloatFmt : String := \"?\"\n")
        report["rmseColumns"] = "untranslatable: " + str(e)
    return out, report


HEADER = """/- GENERATED by harness/props/_c13_translate.py from the source text of VERIF_REPO — do not edit.
   One definition per assignment of the statistics code; the body is the Python expression in the vocabulary of
   GlotaranModel/C13Py.lean.  `Py.untranslatable` marks source the translator could not translate. -/
import GlotaranModel.C13Py
namespace Glotaran.C13.Generated
open Glotaran.LinAlg Glotaran.C13 Glotaran.C13.Py
"""


def translate(repo: Path):
    """returns (lean text, report)"""
    srcs = {}
    for rel in ("glotaran/optimization/optimizer.py", "glotaran/optimization/optimization_group.py", "glotaran/optimization/matrix_provider.py",
                "glotaran/project/result.py"):
        try:
            srcs[rel] = ast.parse((repo / rel).read_text())
        except Exception as e:        # unreadable / unparsable source: everything untranslatable
            srcs[rel] = ast.parse("")
            srcs[rel]._error = f"{type(e).__name__}: {e}"
    sections = []
    report = {}
    opt = srcs["glotaran/optimization/optimizer.py"]

    def safe(build, expected):
        """a bug of the translator itself (an exception that is not `Untranslatable`) must not crash the check either"""
        try:
            r = build()
            return list(r) if isinstance(r, (tuple, list)) else [r]
        except Exception as e:      # noqa: BLE001
            fns = []
            for prefix, record, alpha, keys in expected:
                fn = Fn(prefix, record, alpha, {})
                for k in keys:
                    missing(fn, k, f"translator error {type(e).__name__}: {e}")
                fns.append(fn)
            return fns
    parts = [("Optimizer.create_result", safe(lambda: translate_create_result(opt),
                                              [("cr", "CreateResultIn", "γ", ["result_args:" + k for k in CR_KEYS])]))]
    parts.append(("Optimizer.calculate_covariance_matrix_and_standard_errors",
                  safe(lambda: translate_covariance(opt), [("cov", "CovarianceIn", "α", COV_KEYS + ["returned"]), ("se", "StdErrIn", "α", ["stored"])])))
    parts.append(("OptimizationGroup.create_result_data (RMSE attributes)",
                  safe(lambda: translate_dataset_rmse(srcs["glotaran/optimization/optimization_group.py"]), [("ds", "DatasetIn", None, DS_KEYS)])))
    parts.append(("MatrixProvider{Linked,Unlinked}.number_of_clps",
                  safe(lambda: translate_clps(srcs["glotaran/optimization/matrix_provider.py"], None),
                       [("linked", "LinkedClpsIn", None, ["number_of_clps"]), ("unlinked", "UnlinkedClpsIn", "δ", ["number_of_clps"])])))
    for title, fns in parts:
        sections.append(f"/-! ### {title} -/\n")
        for fn in fns:
            sections.extend(fn.out)
            for k, d in fn.defs.items():
                report[def_name(fn, k)] = "untranslatable: " + str(d) if isinstance(d, Untranslatable) else "ok"
    try:
        rep_out, rep_report = translate_report(srcs["glotaran/project/result.py"])
    except Exception as e:      # noqa: BLE001
        why = lean_str(f"translator error {type(e).__name__}: {e}")
        rep_out = [f"def reportRows : Py.Untranslatable :=\n  Py.untranslatable {why}\n\ndef rmseColumns : Py.Untranslatable :=\n  Py.untranslatable {why}\n\n"
                   "def rmseFloatFmt : String := \"?\"\n"]
        rep_report = {"reportRows": "untranslatable: translator error", "rmseColumns": "untranslatable: translator error"}
    sections.append("/-! ### Result.markdown -/\n")
    sections.extend(rep_out)
    names = sorted(k for k, v in report.items() if v == "ok" and not k.endswith(("cov_jacobian_sv", "cov_jacobian_rsv")))
    names = [n for n in names if f"def {n} " in "\n".join(sections)]
    macro = ("/-- unfolds every generated definition (the list follows the source: proofs do not name single definitions) -/\n"
             "macro \"c13_unfold_generated\" loc:(Lean.Parser.Tactic.location)? : tactic =>\n  `(tactic| simp only ["
             + ", ".join("Glotaran.C13.Generated." + n for n in names) + "] $[$loc]?)\n")
    report.update(rep_report)
    text = HEADER + "\n" + "\n".join(sections) + "\n" + macro + "\nend Glotaran.C13.Generated\n"
    return text, report


def write_if_changed(path: Path, text: str):
    if not path.exists() or path.read_text() != text:
        path.parent.mkdir(parents=True, exist_ok=True)
        path.write_text(text)
        return True
    return False


def sha1(text):
    return hashlib.sha1(text.encode()).hexdigest()
