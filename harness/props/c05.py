"""C05 — Gaussian IRF convolution is exact, for every index of a dispersed or shifted IRF.

Correspondence (real code in-process vs lean/GlotaranModel/C05.lean):
  * regime E (equality of exact rationals): `irf.parameter(index, axis)` for all four IRF item types built
    directly and through Model + fill_item, `is_index_dependent`, `calculate_dispersion`;
  * regime S (the model prints terms over exp / erf / erfcx / sqrt2 with exact rational leaves, evaluated here
    with mpmath at 50 digits and compared with the numba doubles): `megacomplex.calculate_matrix` of the
    parallel / sequential / general decay megacomplexes with Gaussian, multi-Gaussian and spectral IRFs, the
    numba kernel `calculate_decay_matrix_gaussian_irf_on_index` itself (back-sweep, both branches, the
    switch-over), `Irf.calculate`.
  * refused specifications (zero width, normalize with scales summing to zero, empty global axis): the exception classes;
  * the result variables of `retrieve_irf` (exact regime) and of a one-evaluation `optimize` (irf, irf_shift,
    irf_center_location, center_dispersion_1), also against the specification (oracle_reported_irf / _locations).
Tie by regeneration: `generate` rewrites Generated/C05Fns.lean and Generated/C05Irf.lean from the source (see _c05_translate.py).
Oracle (independent of the model and of every closed form): the defining convolution integral
int_0^inf exp(-k s) g(t - s) ds by Gauss-Legendre quadrature, with the effective centre / width of each
index computed from the specification as the property states it.
"""
from __future__ import annotations

import hashlib
import json
import math
from fractions import Fraction

import numpy as np

from harness import core
from harness.core import bool_, lst, rat, rats
from harness.props import _c05_lib as L
from harness.props import _c05_translate as TR

PROP = "C05"
REQUIRED_THEOREMS = [
    "thresh_decision_sound", "branches_agree", "gaussEntry_eq_closedForm", "closed_form_is_convolution",
    "closed_form_ode", "gaussEntry_is_convolution", "kernelEntry_is_sum_of_convolutions",
    "matrixOfParams_is_normalised_convolution", "applyA_entry", "dispersion_poly_spec", "parameter_spec_plain",
    "parameter_spec", "parameter_lengths_agree", "parameter_index_free_part", "dep_matrix_length",
    "index_i_uses_parameters_i", "indep_matrix_uses_parameters", "dep_matrix_is_convolution_per_index",
    "indep_matrix_is_convolution", "calculateMatrix_is_convolution_per_index", "calculateMatrix_is_convolution_indep",
    "irfCalculate_spec", "calculateDispersion_entry", "kernelEntry_off", "gaussPdf_integral_one",
    "kernelEntry_with_backsweep",
    # the functions regenerated from the Python source (Generated/C05Fns.lean) are the model's functions
    "generated_no_irf_eq_model", "generated_kernel_eq_model_on_index", "generated_kernel_eq_model_all_indices",
    "generated_glue_indep_eq_model", "generated_glue_dep_eq_model",
    "is_index_dependent_generated_eq_model", "dispersion_dist_generated_eq_model", "parameter_generated_eq_model",
    # method level (Generated/C05Irf.lean): base-class parameter, calculate, calculate_dispersion, calculate_matrix, retrieve_irf
    "generated_base_parameter_eq_model", "generated_irf_calculate_eq_model", "generated_calculate_dispersion_eq_model",
    "generated_index_dependent_eq_model", "generated_calculate_matrix_eq_model", "generated_retrieve_irf_eq_model",
    # what the compiled code refuses (zero width, zero sum of scales, empty global axis); the reported IRF trace
    "checked_ok_refines", "zero_scale_sum_never_a_matrix", "zero_width_raises_partial", "zero_width_raises_counterexample",
    "reported_irf_is_used_irf",
]
TRUSTED = [
    "translator harness/props/_c05_translate.py (Python ast -> Lean functions of Generated/C05Fns.lean and Generated/C05Irf.lean, "
    "regenerated on every run) and its fixed vocabulary lean/GlotaranModel/C05Rt.lean (forRange, matUpd, slabUpd, forRangeM, bindE, "
    "enumFold; listGet, needIndex, optValue, zerosOfShape, Matrix.matmul, callDep / callIndep, onGlobalDim, scalarOrList); the "
    "generated functions are proved equal to the model functions (generated_*_eq_model*, parameter_generated_eq_model)",
    "hand-written model lean/GlotaranModel/C05.lean; since the method-level translation every function of it that has a source "
    "counterpart is proved equal to a regenerated one, except: the skeleton of IrfSpectralMultiGaussian.parameter around the "
    "regenerated dispersion loops (parameter_generated_eq_model covers the in-domain path), and kernelGuard / Term.finite (what numba "
    "and numpy do on a division by zero: observed by differential execution)",
    "mpmath 1.3 (exp, erf, erfc, sqrt at 50 digits) as evaluator of the model's terms; numpy's Gauss-Legendre "
    "nodes and exp for the quadrature oracle",
    "scipy.special.erf / erfcx and the numba compilation of the kernels (observed through the comparison, not proved)",
    "rates and A-matrix of the megacomplex are inputs of the model, taken from the real code (property C04)",
]
ASSUMPTIONS = [
    "theorems are over the reals with erf defined as (2/sqrt pi) * integral_0^x exp(-s^2); IEEE rounding, "
    "underflow and overflow of the kernels are observed (relative 1e-11 of the term's forward-error scale, "
    "absolute floor 1e-300), not proved",
    "the convolution theorems need a positive width; what the code does outside is modelled where it is well defined: a zero width "
    "under an index-independent IRF raises ZeroDivisionError (zero_width_raises_partial), normalize with scales summing to zero "
    "raises the non-finite ValueError (zero_scale_sum_never_a_matrix), an index-dependent IRF on an empty global axis raises numba's "
    "ValueError; still outside the model (driver answers unmodelled): a zero width at some index of an index-dependent IRF (numba "
    "loses or converts the exception inside prange: known finding silent-matrix:zero-width) and 1e3/0 on the axis with dispersion "
    "coefficients (infinite dispersion: zero slice or non-finite ValueError, observed only)",
    "back-sweep is modelled as coded and compared, but the property statement (and the convolution theorems) "
    "are for back-sweep off",
    "the generated-equals-model theorems are statements over the reals for arrays of any length run on np.zeros; the kernels' "
    "`<` / abs on doubles are read as the real order / absolute value (no NaN), numba's unchecked indexing as 'one width and one "
    "scale per centre' (hypothesis of generated_kernel_eq_model_on_index, discharged by parameter_lengths_agree in the glue theorems); "
    "generated_calculate_matrix_eq_model holds for every finiteness predicate on the reals",
    "method-level translation: a Parameter and its value are the same rational, a single centre / width is a list of one "
    "(`x if isinstance(x, list) else [x]`, np.asarray and `[p.value for p in ps]` are the identity), the megacomplex's rates and "
    "A-matrix are inputs, xarray's dimension check is `onGlobalDim`; retrieve_irf is translated for a Gaussian IRF and a dataset "
    "without an `irf` variable (its guard is matched, not translated)",
    "the exact branch decision (d < -sqrt 2 on rationals) may differ from the double comparison within rounding of "
    "the switch-over point; thresh_decision_sound + branches_agree make the choice irrelevant for the value",
]
RULE = (
    "param stream (exact): IRF items of the 4 types with 1-3 centres / widths in every broadcasting pattern "
    "(n-n, 1-n, n-1, mismatched), scales absent / matching / mismatching, shift lists shorter / equal / longer than "
    "the axis, 0-3 centre and width dispersion coefficients, both dispersion variables, dispersion centre present / "
    "absent / zero, back-sweep with and without period, global index None / inside / beyond the axis, irregular "
    "unsorted axes with duplicates; all numbers small dyadics chosen so that every double operation is exact. "
    "matrix stream: rates log-uniform 1e-4..1e3, widths 1e-3..10, times -100..+1000 widths around an effective "
    "centre incl. the switch-over (t - c)/w - k w = -sqrt 2 hit within 1e-9 and exactly, 1-3 Gaussians, normalise "
    "on/off, distinct shifts per index, dispersion of order 0-3 in wavelength or reciprocal wavenumber on irregular "
    "axes, parallel / sequential / general decay megacomplex with 1-3 rates; malformed stream (counts that do not "
    "match) and refused specifications (a zero width, normalize with scales summing exactly to zero, an empty global axis, "
    "each also with an empty time axis). kernel stream: direct numba kernel incl. back-sweep and negative widths. result stream: "
    "optimize() with one evaluation on shifted / dispersed IRFs, the reported irf trace against the specification. non-trivial = IRF present with "
    "either >= 2 global indices with distinct effective parameters or >= 2 Gaussians or a time on each side of the "
    "switch-over; distinct = distinct (specification, axes) pairs"
)

SQRT2 = math.sqrt(2.0)

GEN_FILE = core.LEAN / "GlotaranModel" / "Generated" / "C05Fns.lean"


GEN_IRF_FILE = core.LEAN / "GlotaranModel" / "Generated" / "C05Irf.lean"


def generate(ck):
    """regenerate lean/GlotaranModel/Generated/C05Fns.lean (function-level translation of the kernels, their glue and
    the dispersion formulas) and Generated/C05Irf.lean (method-level translation of IrfMultiGaussian.parameter / calculate /
    calculate_dispersion, util.index_dependent / calculate_matrix / retrieve_irf) from the source text of VERIF_REPO; each
    file is written only when its content changes"""
    out = []
    for path, render, what in ((GEN_FILE, TR.render, "kernels, glue, dispersion formulas"),
                               (GEN_IRF_FILE, TR.render_irf, "parameter / calculate / calculate_matrix / retrieve_irf")):
        text, table = render(core.REPO)
        path.parent.mkdir(parents=True, exist_ok=True)
        if not path.exists() or path.read_text() != text:
            path.write_text(text)
        for row in table:
            ck.count("generated:" + ("translated" if row["status"] == "translated" else "untranslatable"))
        out.append({
            "table": f"functions of lean/GlotaranModel/Generated/{path.name} ({what}; ast -> Lean, harness/props/_c05_translate.py)",
            "source": [TR.KERNEL_FILE, TR.UTIL_FILE, TR.IRF_FILE],
            "source_sha1": TR.source_sha1(core.REPO),
            "sha1": hashlib.sha1(text.encode()).hexdigest(),
            "functions": table,
        })
    return out


# ------------------------------------------------------------------------------------------
# generators
# ------------------------------------------------------------------------------------------
def pick(rng, xs):
    return xs[rng.randrange(len(xs))]


E_CENTRES = [x / 4 for x in range(-8, 9)]
E_WIDTHS = [0.25, 0.5, 0.75, 1.0, 1.5, 2.0]
E_SCALES = [0.5, 1.0, 2.0, 3.0, 0.25]
E_COEFS = [0.5, -0.5, 0.25, -0.25, 1.0, -1.0, 0.125, 2.0]
E_WAVE = sorted({b * 2.0 ** z for b in (1000.0, 200.0, 40.0, 8.0) for z in range(-3, 4)})


def gen_irf_exact(rng):
    """(irf, axis) with values for which every double operation of `parameter` is exact"""
    typ = pick(rng, ["gaussian", "multi-gaussian", "spectral-gaussian", "spectral-multi-gaussian",
                     "multi-gaussian", "spectral-multi-gaussian"])
    if typ in L.SINGLE and rng.random() < 0.8:
        nc = nw = 1
    else:
        nc, nw = pick(rng, [(1, 1), (2, 2), (3, 3), (1, 2), (1, 3), (2, 1), (3, 1), (2, 3), (3, 2), (2, 2), (1, 3)])
    n = max(nc, nw)
    irf = L.default_irf(type=typ, center=[pick(rng, E_CENTRES) for _ in range(nc)],
                        width=[pick(rng, E_WIDTHS) for _ in range(nw)], normalize=rng.random() < 0.5)
    r = rng.random()
    if r < 0.45:
        irf["scale"] = [pick(rng, E_SCALES) for _ in range(n)]
    elif r < 0.6:
        irf["scale"] = [pick(rng, E_SCALES) for _ in range(pick(rng, [1, 2, 3, 4]))]
    wn = typ in L.SPECTRAL and rng.random() < 0.4
    na = rng.randrange(1, 6)
    if wn:
        axis = [pick(rng, E_WAVE) for _ in range(na)]
        if rng.random() < 0.05:
            axis[rng.randrange(na)] = 0.0
    else:
        x0 = pick(rng, [400.0, 500.0, 650.0, 0.0])
        axis = [x0 + 25.0 * rng.randrange(-8, 9) for _ in range(na)]
    if rng.random() < 0.7:
        axis = sorted(set(axis)) if rng.random() < 0.7 else axis
    if rng.random() < 0.5:
        irf["shift"] = [pick(rng, E_CENTRES) for _ in range(max(0, len(axis) + pick(rng, [0, 0, 0, 1, -1, 2, -2])))]
    if typ in L.SPECTRAL:
        irf["wavenumber"] = wn
        r = rng.random()
        if r < 0.85:
            irf["dispersion_center"] = pick(rng, E_WAVE) if wn else pick(rng, [400.0, 500.0, 650.0, 0.0])
            if wn and rng.random() < 0.04:
                irf["dispersion_center"] = 0.0
        irf["center_disp"] = [pick(rng, E_COEFS) for _ in range(pick(rng, [0, 1, 1, 2, 3]))]
        irf["width_disp"] = [pick(rng, E_COEFS) for _ in range(pick(rng, [0, 0, 1, 2, 3]))]
    if rng.random() < 0.2:
        irf["backsweep"] = True
        if rng.random() < 0.8:
            irf["backsweep_period"] = pick(rng, [8.0, 13.0, 0.5])
    elif rng.random() < 0.1:
        irf["backsweep_period"] = 13.0
    return irf, axis


def logu(rng, lo, hi):
    return 10.0 ** rng.uniform(math.log10(lo), math.log10(hi))


def gen_axis(rng, n, lo=300.0, hi=800.0):
    axis = [round(rng.uniform(lo, hi), pick(rng, [0, 1, 3])) for _ in range(n)]
    r = rng.random()
    if r < 0.5:
        axis.sort()
    elif r < 0.6:
        axis.sort(reverse=True)
    if n > 1 and rng.random() < 0.1:
        axis[rng.randrange(n)] = axis[rng.randrange(n)]        # duplicate coordinate
    return axis


def gen_irf_float(rng, malformed=False):
    """(irf, axis) over the property's ranges with distinct per-index parameters"""
    typ = pick(rng, ["gaussian", "multi-gaussian", "multi-gaussian", "spectral-gaussian",
                     "spectral-multi-gaussian", "spectral-multi-gaussian"])
    if typ in L.SINGLE:
        nc = nw = 1
    else:
        nc, nw = pick(rng, [(1, 1), (2, 2), (3, 3), (1, 2), (1, 3), (2, 1), (3, 1), (2, 2)])
    n = max(nc, nw)
    w0 = logu(rng, 1e-3, 10.0)
    widths = [w0] + [min(10.0, max(1e-3, w0 * logu(rng, 0.2, 5.0))) for _ in range(nw - 1)]
    c0 = rng.uniform(-5.0, 5.0)
    centres = [c0] + [c0 + rng.uniform(-4.0, 4.0) * w0 for _ in range(nc - 1)]
    irf = L.default_irf(type=typ, center=centres, width=widths, normalize=rng.random() < 0.6)
    if rng.random() < 0.6:
        irf["scale"] = [logu(rng, 0.2, 5.0) for _ in range(n)]
        if n >= 2 and rng.random() < 0.15:          # a negative weight (sum of scales stays away from zero)
            irf["scale"][1] = -0.3 * irf["scale"][0]
    na = pick(rng, [1, 2, 3, 3, 4, 5])
    axis = gen_axis(rng, na)
    if rng.random() < (0.6 if typ not in L.SPECTRAL else 0.4):
        sh = [rng.uniform(-3.0, 3.0) * w0 for _ in range(na + pick(rng, [0, 0, 1, 2]))]
        irf["shift"] = sh
    if typ in L.SPECTRAL:
        irf["wavenumber"] = rng.random() < 0.5
        irf["dispersion_center"] = round(rng.uniform(350.0, 750.0), 1)
        x0 = irf["dispersion_center"]
        dists = [(1e3 / x - 1e3 / x0) if irf["wavenumber"] else (x - x0) / 100 for x in axis]
        dmax = max([abs(d) for d in dists] + [1e-3])
        ncd = pick(rng, [0, 1, 2, 3, 3])
        irf["center_disp"] = [rng.uniform(-2.0, 2.0) * w0 / dmax ** (i + 1) for i in range(ncd)]
        nwd = pick(rng, [0, 0, 1, 2, 3])
        wmin = min(widths)
        irf["width_disp"] = [rng.uniform(-0.25, 0.25) * wmin / dmax ** (i + 1) for i in range(nwd)]
    if rng.random() < 0.08:
        irf["backsweep"] = True
        irf["backsweep_period"] = logu(rng, 5.0, 50.0)
    if malformed:
        r = rng.random()
        if r < 0.45:
            irf["scale"] = [logu(rng, 0.2, 5.0) for _ in range(pick(rng, [k for k in (1, 2, 3, 4) if k != n]))]
        elif r < 0.6 and typ not in L.SINGLE:
            irf["center"] = [c0, c0 + w0]
            irf["width"] = [w0, w0, w0 * 2]
            irf["scale"] = None
        elif r < 0.8:
            irf["shift"] = [0.1 * w0] * max(0, na - 1)
        else:
            irf["scale"] = [logu(rng, 0.2, 5.0) for _ in range(n + 1)]
    return irf, axis


def gen_mc(rng):
    kind = pick(rng, ["parallel", "parallel", "parallel", "sequential", "general"])
    nr = pick(rng, [1, 2, 2, 3])
    rates = []
    while len(rates) < nr:
        k = logu(rng, 1e-4, 1e3)
        if all(max(k, r) / min(k, r) > 1.5 for r in rates):
            rates.append(k)
    return {"kind": kind, "rates": rates}


def gen_times(rng, irf, axis, rates):
    """times spread -100..+1000 widths around effective centres, plus the branch switch-over"""
    times = []
    idxs = list(range(len(axis))) if L.spec_index_dependent(irf) else [None]
    effs = []
    for gi in idxs:
        gs, _ = L.effective_gaussians(irf, gi, axis)
        if gs:
            effs += [(float(c), float(w)) for c, w, _ in gs if w > 0]
    if not effs:
        effs = [(0.0, 1.0)]
    nt = pick(rng, [4, 6, 8, 10])
    switch = 0
    for _ in range(nt):
        c, w = pick(rng, effs)
        k = pick(rng, rates)
        r = rng.random()
        if r < 0.25:
            x = rng.uniform(-100.0, 1000.0)
        elif r < 0.4:
            x = -logu(rng, 0.1, 100.0)
        elif r < 0.55:
            x = logu(rng, 0.1, 1000.0)
        elif r < 0.7:
            x = rng.uniform(-6.0, 6.0)
        elif r < 0.72:
            x = 0.0
        else:
            x = k * w - SQRT2 + pick(rng, [0.0, 1e-9, -1e-9, 1e-3, -1e-3, 0.3, -0.3])
            switch += 1
        times.append(c + x * w)
    if rng.random() < 0.15:
        # an all-integer time axis (np.arange style): handed to the real code with an integer dtype by real_matrix
        times = [float(round(t)) for t in times]
    if rng.random() < 0.5:
        times.sort()
    return times, switch


# ------------------------------------------------------------------------------------------
# streams
# ------------------------------------------------------------------------------------------
def param_lines(irf, gis, axis):
    e = L.enc_irf(irf)
    return [f"param {e} {'none' if gi is None else gi} {rats(axis)}" for gi in gis]


def run_param_cases(ck, cases, tag="param"):
    """regime E: parameter / is_index_dependent / calculate_dispersion, item built directly and through the model"""
    lines, expect = [], []
    for irf, axis in cases:
        gis = [None] + list(range(len(axis) + 1))
        item = L.irf_item(irf)
        items = [("direct", item)]
        try:
            ds, _ = L.build_dataset(irf, {"kind": "parallel", "rates": [1.0]})
            items.append(("filled", ds.irf))
            ck.count(f"{tag}:built-through-model")
        except KeyError:
            ck.count(f"{tag}:direct-only")
        for how, it in items:
            for gi, line in zip(gis, param_lines(irf, gis, axis)):
                lines.append(line)
                expect.append((L.real_parameter(it, gi, axis), {"kind": "param", "irf": irf, "axis": axis, "gi": gi, "how": how}))
            lines.append(f"indexdep {L.enc_irf(irf)}")
            expect.append((bool_(bool(it.is_index_dependent())), {"kind": "indexdep", "irf": irf, "axis": axis, "how": how}))
            if irf["type"] in L.SPECTRAL:
                lines.append(f"dispersion {L.enc_irf(irf)} {rats(axis)}")
                try:
                    with np.errstate(all="ignore"):
                        d = it.calculate_dispersion(np.asarray(axis, dtype=float))
                    if d.size and not np.all(np.isfinite(d)):
                        got = "unmodelled:non-finite"
                    else:
                        got = "ok " + (L.ratss(d) if d.ndim == 2 else "[]")
                except Exception as e:  # noqa: BLE001
                    got = L.classify_error(e)
                expect.append((got, {"kind": "dispersion", "irf": irf, "axis": axis, "how": how}))
        ck.case(("param", json.dumps(irf, sort_keys=True), tuple(axis)),
                nontrivial=len(axis) >= 2 or len(irf["center"]) + len(irf["width"]) > 2)
        ck.count(f"{tag}:type:{irf['type']}")
        ck.count(f"{tag}:broadcast:{len(irf['center'])}-{len(irf['width'])}")
    answers = core.lean_driver(PROP, lines)
    for (got, payload), ans in zip(expect, answers):
        key = got.split(" ")[0]
        ck.count(f"{tag}:answer:{key}")
        if got != ans:
            ck.disagree(f"{payload['kind']}-differs", f"{payload['kind']}: real code and model differ",
                        dict(payload, impl=got, model=ans))
        # the independent reading of the statement for `parameter`
        if payload["kind"] == "param":
            check_param_oracle(ck, payload, got)


def check_param_oracle(ck, payload, got):
    """oracle on `parameter` in the exact regime: effective centre / width / scale per Gaussian from the
    specification alone (documented broadcasting, centre - shift_i, dispersion polynomial)"""
    irf, axis, gi = payload["irf"], payload["axis"], payload["gi"]
    gs, reason = L.effective_gaussians(irf, gi, axis)
    ck.oracle_evals += 1
    if gs is None:
        if got.startswith("ok ") and reason.startswith("scale-count"):
            ck.count("param:oracle:scale-count-differs-but-returned")   # decided at matrix level (oracle_matrix)
        return
    if not got.startswith("ok "):
        if got.startswith("err:") and gi is not None and not (irf["backsweep"] and irf["backsweep_period"] is None) \
                and gi < len(axis):
            ck.violation("parameter-raises-in-domain", "irf.parameter raises inside the documented domain",
                         dict(payload, observed=got))
        return
    t = core.parse_tree(got[3:])
    cs, ws, ss, shift = [core.unrat(x) for x in t[0]], [core.unrat(x) for x in t[1]], [core.unrat(x) for x in t[2]], core.unrat(t[3])
    eff = [(c - shift, w, s) for c, w, s in zip(cs, ws, ss)]
    if len(eff) != len(gs) or any(a != b for a, b in zip(eff, gs)):
        ck.violation("effective-parameters-differ",
                     "centre - shift / width / scale of an index differ from the documented broadcasting + dispersion polynomial",
                     dict(payload, observed=[[str(x) for x in e] for e in eff], required=[[str(x) for x in g] for g in gs]))


def real_matrix(irf, mc, axis, times):
    """(rates, A, labels, matrix | error-string) from the real code through the API"""
    ds, m = L.build_dataset(irf, mc)
    comps = m.get_compartments(ds)
    rates = np.asarray(m.get_k_matrix().rates(comps, m.get_initial_concentration(ds)), dtype=float)
    a = np.asarray(m.get_a_matrix(ds), dtype=float)
    try:
        with np.errstate(all="ignore"):
            # a time axis whose values are all integers is handed over with an integer dtype (np.arange-style axes are valid
            # input; round-2 seeded change C05-6: a scratch buffer allocated with np.empty_like(times) truncated in that case)
            t_arr = np.asarray(times, dtype=float)
            if t_arr.size and np.all(t_arr == np.round(t_arr)) and np.all(np.abs(t_arr) < 2 ** 31):
                t_arr = t_arr.astype(np.int64)
            # an optimisation evaluates the same megacomplex again and again: what is observed is the SECOND of two identical
            # evaluations (round-2 seeded change C05-5: the un-normalised IRF matrix memoised without a copy and then
            # normalised in place, so every evaluation after the first was divided by the sum of scales once more)
            g_arr = np.asarray(axis, dtype=float)
            m.calculate_matrix(ds, g_arr, t_arr)
            labels, mat = m.calculate_matrix(ds, g_arr, t_arr)
    except Exception as e:  # noqa: BLE001
        return rates, a, list(comps), L.classify_error(e)
    return rates, a, list(labels), np.asarray(mat)


def matrix_line(irf, axis, times, rates, a):
    return f"matrix {L.enc_irf(irf)} {rats(axis)} {rats(times)} {rats(rates)} {L.ratss(a)} {a.shape[1]}"


def compare_matrix(ck, te, ans, mat, payload, tag, ans_pert=None, rtol=L.RTOL):
    """model answer line vs real matrix / error; returns True when they agree.  `ans_pert`: the model's answer for
    times moved by the rounding error of the effective centre — the difference is the conditioning allowance"""
    if isinstance(mat, str) and mat == "err:ValueError:non-finite" and ans.split(" ")[0] in ("indep", "dep"):
        # overflow of a double is not decidable in the exact model: accepted iff the model's value is out of range
        flat = []

        def collect(v):
            if isinstance(v, tuple):
                flat.append(v)
            else:
                for x in v:
                    collect(x)

        collect(te.matrix(L.parse_terms(ans.partition(" ")[2])))
        if any(sc > 1e290 for _, sc in flat):
            ck.count(f"{tag}:overflow-observed")
            return True
    if isinstance(mat, str):
        if ans != mat:
            ck.disagree(f"{tag}-error-differs", "calculate_matrix: real code and model differ (error / matrix)",
                        dict(payload, impl=mat, model=ans[:200]))
            return False
        return True
    kind, _, body = ans.partition(" ")
    if kind not in ("indep", "dep", "ok"):
        ck.disagree(f"{tag}-error-differs", "calculate_matrix: the model reports an error, the real code returns a matrix",
                    dict(payload, impl=f"matrix{mat.shape}", model=ans[:200]))
        return False
    want_dim = {"indep": 2, "dep": 3, "ok": mat.ndim}[kind]
    if mat.ndim != want_dim:
        ck.disagree(f"{tag}-shape-differs", "index dependence of the matrix differs", dict(payload, impl=mat.ndim, model=kind))
        return False
    vals = te.matrix(L.parse_terms(body))
    pert = None
    if ans_pert is not None and ans_pert.split(" ")[0] == kind:
        pert = te.matrix(L.parse_terms(ans_pert.partition(" ")[2]))
    arr = np.asarray(mat, dtype=float)

    def walk(v, a, w, path):
        if isinstance(v, tuple):
            extra = 2 * abs(v[0] - w[0]) if w is not None else 0
            if not L.close(te.mp, float(a), v[0], v[1], rtol=rtol, extra=extra):
                return [(path, float(a), v[0])]
            return []
        if len(v) != len(a):
            return [(path, f"len {len(a)}", f"len {len(v)}")]
        bad = []
        for i, (x, y) in enumerate(zip(v, a)):
            bad += walk(x, y, None if w is None else w[i], path + (i,))
            if len(bad) > 3:
                break
        return bad

    bad = walk(vals, arr, pert, ())
    if bad:
        p, got, want = bad[0]
        ck.disagree(f"{tag}-entry-differs", "matrix entry: real code and model (mpmath) differ",
                    dict(payload, index=list(p), impl=repr(got), model=str(want)[:40], more=len(bad) - 1))
        return False
    return True


def oracle_matrix(ck, q, irf, mc, axis, times, mat, payload, budget):
    """the statement on the real output (parallel megacomplex: species c decays with rates[c] from 1/n)"""
    if mc["kind"] != "parallel":
        return
    dep = L.spec_index_dependent(irf)
    idxs = list(range(len(axis))) if dep else [None]
    reasons = {L.effective_gaussians(irf, gi, axis)[1] for gi in idxs}
    reasons.discard(None)
    if reasons:
        reason = sorted(reasons)[0]
        ck.oracle_evals += 1
        if isinstance(mat, str):
            return                                  # refused: fine
        if reason.startswith("scale-count"):
            # a matrix came back: accepted only if it is the statement under *some* reading of the scale list
            # (single scale broadcast; missing scales = 1; surplus scales ignored everywhere)
            n = max(len(irf["center"]), len(irf["width"]))
            sc = list(irf["scale"])
            readings = []
            if len(sc) == 1:
                readings.append(sc * n)
            if len(sc) < n:
                readings.append(sc + [1.0] * (n - len(sc)))
            else:
                readings.append(sc[:n])
            dep = L.spec_index_dependent(irf)
            nr = len(mc["rates"])
            entries = [(ii, it, ic) for ii in range(len(idxs)) for it in range(len(times)) for ic in range(nr)]
            entries = ck.rng.sample(entries, min(len(entries), 12))
            for rd in readings:
                alt = dict(irf, scale=rd)
                gss = [L.effective_gaussians(alt, gi, axis)[0] for gi in idxs]
                if any(g is None for g in gss) or any(w <= 0 for gs in gss for _, w, _ in gs) or irf["backsweep"]:
                    return
                good = True
                for ii, it, ic in entries:
                    want, mag = L.oracle_entry(q, gss[ii], irf["normalize"], mc["rates"][ic], times[it])
                    want, mag = want / nr, mag / nr
                    got = float(mat[ii, it, ic] if dep else mat[it, ic])
                    if not (abs(q.mp.mpf(got) - want) <= 1e-9 * mag + 1e-280):
                        good = False
                        break
                if good:
                    ck.count(f"oracle:{reason}:consistent-reading")
                    return
            ck.violation(f"scales-not-applied:{reason}",
                         "the number of IRF scales differs from the number of Gaussians and the matrix is not weighted / "
                         "normalised by them under any reading (broadcast, default 1, surplus ignored)",
                         dict(payload, observed=f"matrix of shape {mat.shape}", required="ModelError or a consistent use of the scales"))
            return
        ck.violation(f"silent-matrix:{reason}",
                     "a matrix is produced although the IRF specification is outside the documented domain "
                     f"({reason}); it cannot use index i's parameters",
                     dict(payload, observed=f"matrix of shape {mat.shape}", required="ModelError"))
        return
    gss = [L.effective_gaussians(irf, gi, axis)[0] for gi in idxs]
    if dep and not axis:
        ck.count("oracle:empty-global-axis:" + ("raises" if isinstance(mat, str) else "matrix"))   # nothing to compare either way
        return
    nonempty = len(times) > 0 and len(mc["rates"]) > 0
    for reason, bad in (("zero-width", any(w == 0 for gs in gss for _, w, _ in gs)),
                        ("zero-scale-sum", irf["normalize"] and any(sum(s for _, _, s in gs) == 0 for gs in gss))):
        # the convolution with a Gaussian of width 0 / a division by a zero sum of scales is not defined: the statement
        # demands that no (non-empty) matrix is silently produced
        if bad:
            ck.oracle_evals += 1
            ck.count(f"oracle:{reason}:" + ("refused" if isinstance(mat, str) else "empty-matrix" if not nonempty else "matrix"))
            if nonempty and not isinstance(mat, str):
                ck.violation(f"silent-matrix:{reason}",
                             f"a matrix is produced although the IRF has a {reason.replace('-', ' ')} (the convolution is undefined)",
                             dict(payload, observed=f"matrix of shape {mat.shape}", required="an exception"))
            return
    if any(w <= 0 for gs in gss for _, w, _ in gs) or irf["backsweep"]:
        ck.count("oracle:skipped:nonpositive-width-or-backsweep")
        return
    if isinstance(mat, str):
        ck.violation(f"matrix-raises:{mat}", "calculate_matrix raises inside the documented domain", dict(payload, observed=mat))
        return
    n = len(mc["rates"])
    if mat.ndim != (3 if dep else 2):
        ck.violation("index-dependence-differs", "shifted / dispersed IRF must give one matrix per global index",
                     dict(payload, observed=mat.ndim))
        return
    entries = [(ii, it, ic) for ii in range(len(idxs)) for it in range(len(times)) for ic in range(n)]
    if len(entries) > budget:
        entries = ck.rng.sample(entries, budget)
    mp = q.mp
    delta = Fraction(8 * 2.0 ** -53 * L.centre_magnitude(irf, axis))
    for ii, it, ic in entries:
        want, mag = L.oracle_entry(q, gss[ii], irf["normalize"], mc["rates"][ic], times[it])
        want, mag = want / n, mag / n
        # conditioning: the double value of centre - shift + dispersion is a few ulps off the exact one
        wp, _ = L.oracle_entry(q, gss[ii], irf["normalize"], mc["rates"][ic], Fraction(float(times[it])) + delta)
        got = float(mat[ii, it, ic] if dep else mat[it, ic])
        ck.oracle_evals += 1
        if mag < mp.mpf(10) ** -290:
            ok = abs(got) < 1e-280
            ck.count("oracle:below-double-range")
        else:
            ok = np.isfinite(got) and abs(mp.mpf(got) - want) <= 1e-10 * mag + 2 * abs(wp / n - want)
        if not ok:
            ck.violation(f"entry-ne-convolution:{'dep' if dep else 'indep'}:{irf['type']}",
                         "decay column differs from the convolution of exp(-k t) with the normalised Gaussian(s) of this index",
                         dict(payload, index=[ii, it, ic], global_index=idxs[ii], rate=mc["rates"][ic], time=times[it],
                              observed=repr(got), required=mp.nstr(want, 17)))
            return


def oracle_reported_irf(ck, q, irf, axis, times, got_irf, payload):
    """the `irf` variable of a result dataset must be the Gaussian mixture the matrix of global index 0 was convolved with
    (effective centre = centre - shift_0 + dispersion_0, effective width, scale; each Gaussian in peak-normalised form) —
    from the specification alone (L.effective_gaussians), evaluated with mpmath"""
    if not axis:
        return
    gs, reason = L.effective_gaussians(irf, 0, axis)
    if gs is None or any(w == 0 for _, w, _ in gs):
        return
    mp = q.mp
    fr = lambda x: mp.mpf(x.numerator) / mp.mpf(x.denominator)  # noqa: E731
    delta = 8 * 2.0 ** -53 * max(L.centre_magnitude(irf, axis), 1e-300)
    for it, t in enumerate(times):
        tf = Fraction(float(t))
        want = mag = slope = mp.mpf(0)
        for c, w, sc in gs:
            v = fr(sc) * mp.exp(-(fr(tf) - fr(c)) ** 2 / (2 * fr(w) ** 2))
            want += v
            mag += abs(v)
            slope += abs(v) * abs(fr(tf) - fr(c)) / fr(w) ** 2
        got = float(got_irf[it])
        ck.oracle_evals += 1
        if not (np.isfinite(got) and abs(mp.mpf(got) - want) <= 1e-9 * mag + 2 * delta * slope + 1e-300):
            ck.violation("reported-irf-ne-used-irf",
                         "the reported IRF trace (result variable `irf`) is not the Gaussian mixture the matrix of global index 0 "
                         "was convolved with (centre - shift_0 + dispersion_0, width_0, scale)",
                         dict(payload, time=float(t), observed=repr(got), required=mp.nstr(want, 17)))
            return


def oracle_reported_locations(ck, irf, axis, got, payload):
    """exact regime: `irf_shift[i]` is the first declared centre minus the shift of index i; `irf_center_location[g][i]` is the
    centre of Gaussian g at index i with its dispersion polynomial (before the shift is subtracted) and `center_dispersion_1`
    is its first row — from the specification alone (L.effective_gaussians)"""
    F = lambda v: Fraction(float(v))  # noqa: E731
    if "irf_shift" in got and irf["shift"] is not None and len(irf["shift"]) == len(axis):
        want = [F(irf["center"][0]) - F(x) for x in irf["shift"]]
        ck.oracle_evals += 1
        if [F(x) for x in np.ravel(got["irf_shift"])] != want:
            ck.violation("reported-irf-shift-differs", "result variable irf_shift is not centre[0] - shift_i per global index",
                         dict(payload, observed=[float(x) for x in np.ravel(got["irf_shift"])], required=[float(x) for x in want]))
    if "irf_center_location" in got:
        rows = []
        for gi in range(len(axis)):
            gs, _ = L.effective_gaussians(irf, gi, axis)
            if gs is None:
                return
            sh = F(irf["shift"][gi]) if irf["shift"] is not None else Fraction(0)
            rows.append([c + sh for c, _, _ in gs])
        want = [list(r) for r in zip(*rows)]
        loc = np.asarray(got["irf_center_location"], dtype=float)
        ck.oracle_evals += 1
        if loc.ndim != 2 or [[F(x) for x in r] for r in loc] != want:
            ck.violation("reported-center-location-differs",
                         "result variable irf_center_location[g][i] is not the centre of Gaussian g plus the dispersion polynomial of index i",
                         dict(payload, observed=loc.tolist(), required=[[float(x) for x in r] for r in want]))
        elif "center_dispersion_1" in got and [F(x) for x in np.ravel(got["center_dispersion_1"])] != want[0]:
            ck.violation("reported-center-dispersion-1-differs", "center_dispersion_1 is not the first row of irf_center_location",
                         dict(payload, observed=[float(x) for x in np.ravel(got["center_dispersion_1"])], required=[float(x) for x in want[0]]))


def run_matrix_cases(ck, cases, tag="matrix", oracle_budget=24):
    te = L.TermEval()
    te.mp.mp.dps = 50
    q = L.Quad()
    lines, reals = [], []
    for irf, mc, axis, times in cases:
        rates, a, labels, mat = real_matrix(irf, mc, axis, times)
        lines.append(matrix_line(irf, axis, times, rates, a))
        # the same with every time moved by 8 ulp of the centre magnitude (rounding of centre - shift + dispersion)
        delta = Fraction(8 * 2.0 ** -53 * (L.centre_magnitude(irf, axis) if irf is not None else 0.0))
        lines.append(matrix_line(irf, axis, [Fraction(float(t)) + delta for t in times], rates, a))
        reals.append(mat)
    answers = core.lean_driver(PROP, lines)
    answers, perts = answers[0::2], answers[1::2]
    for (irf, mc, axis, times), mat, ans, ans_pert in zip(cases, reals, answers, perts):
        payload = {"kind": "matrix", "irf": irf, "mc": mc, "axis": axis, "times": times}
        dep = irf is not None and L.spec_index_dependent(irf)
        ck.count(f"{tag}:{'none' if irf is None else irf['type']}:{'dep' if dep else 'indep'}")
        ck.count(f"{tag}:mc:{mc['kind']}:{len(mc['rates'])}")
        ck.count(f"{tag}:answer:{ans.split(' ')[0]}")
        nontrivial = irf is not None and ((dep and len(axis) >= 2) or max(len(irf["center"]), len(irf["width"])) >= 2)
        ck.case(("matrix", json.dumps(payload, sort_keys=True)), nontrivial=nontrivial)
        if ans.startswith("unmodelled:"):
            ck.count(f"{tag}:unmodelled")
        else:
            compare_matrix(ck, te, ans, mat, payload, tag, ans_pert=ans_pert)
        if irf is not None:
            oracle_matrix(ck, q, irf, mc, axis, times, mat, payload, oracle_budget)
        if len(ck.samples) < 3 and nontrivial:
            ck.sample({"irf": irf, "mc": mc, "axis": axis, "times": times,
                       "real": mat if isinstance(mat, str) else f"matrix{mat.shape}", "model": ans[:120]})
    for op, n in te.counts.items():
        ck.count(f"{tag}:term-op:{op}", n)


def kernel_fn():
    try:
        from glotaran.builtin.megacomplexes.decay.decay_matrix_gaussian_irf import (
            calculate_decay_matrix_gaussian_irf_on_index as fn)
        return fn
    except ImportError:
        return None


def run_kernel_cases(ck, cases, tag="kernel"):
    """the numba kernel called directly: (rates, times, centres, widths, scales, backsweep, period)"""
    fn = kernel_fn()
    if fn is None:
        ck.count(f"{tag}:function-not-found")
        return
    te = L.TermEval()
    te.mp.mp.dps = 50
    lines, reals = [], []
    for rates, times, cs, ws, ss, bs, T in cases:
        m = np.zeros((len(times), len(rates)), dtype=np.float64)
        with np.errstate(all="ignore"):
            fn(m, np.asarray(rates, float), np.asarray(times, float), np.asarray(cs, float), np.asarray(ws, float),
               np.asarray(ss, float), bool(bs), float(T))
        reals.append(m)
        lines.append(f"kernel {rats(rates)} {rats(times)} {rats(cs)} {rats(ws)} {rats(ss)} {bool_(bs)} {rat(T)}")
    answers = core.lean_driver(PROP, lines)
    for case, m, ans in zip(cases, reals, answers):
        rates, times, cs, ws, ss, bs, T = case
        payload = {"kind": "kernel", "rates": rates, "times": times, "centers": cs, "widths": ws, "scales": ss,
                   "backsweep": bs, "period": T}
        ck.case(("kernel", json.dumps(payload, sort_keys=True)), nontrivial=len(cs) >= 2 or bs)
        ck.count(f"{tag}:backsweep:{bool(bs)}")
        if ans.startswith("unmodelled:"):
            ck.count(f"{tag}:unmodelled")
            continue
        if not np.all(np.isfinite(m)):
            ck.count(f"{tag}:non-finite-double")       # overflow of a growing exponential: observed, not compared
            continue
        compare_matrix(ck, te, ans, m, payload, tag)
    for op, n in te.counts.items():
        ck.count(f"{tag}:term-op:{op}", n)


def gen_kernel_case(rng):
    ng = pick(rng, [1, 1, 2, 3])
    ws = [logu(rng, 1e-3, 10.0) * (1 if rng.random() < 0.9 else -1) for _ in range(ng)]
    cs = [rng.uniform(-5.0, 5.0) for _ in range(ng)]
    ss = [logu(rng, 0.2, 5.0) for _ in range(ng)]
    rates = [logu(rng, 1e-4, 1e3) for _ in range(pick(rng, [1, 2, 3]))]
    bs = rng.random() < 0.4
    T = logu(rng, 1.0, 100.0) if bs else 0.0
    if bs:
        # rates on both sides of abs(r) * T > 0.001, small enough that the back-sweep exponentials stay finite
        rates = [pick(rng, [0.0009 / T, 0.0011 / T, 0.00099999 / T, 0.00100001 / T, logu(rng, 1e-4, 1.0)]) for _ in rates]
        if rng.random() < 0.2:
            rates[0] = -rates[0]
    times = []
    for _ in range(pick(rng, [3, 5, 7])):
        g = rng.randrange(ng)
        k = pick(rng, rates)
        r = rng.random()
        x = rng.uniform(-100, 1000) if r < 0.3 else rng.uniform(-8, 8) if r < 0.6 else \
            k * ws[g] - SQRT2 + pick(rng, [0.0, 1e-9, -1e-9, 1e-3, -1e-3])
        if bs:
            x = max(-50.0, min(50.0, x))
        times.append(cs[g] + x * abs(ws[g]) if ws[g] > 0 or r < 0.6 else cs[g] + x * ws[g])
    return rates, times, cs, ws, ss, bs, T


def run_irfcalc_cases(ck, cases, tag="irfcalc"):
    te = L.TermEval()
    te.mp.mp.dps = 50
    lines, reals = [], []
    for irf, axis, idx, times in cases:
        item = L.irf_item(irf)
        try:
            with np.errstate(all="ignore"):
                v = item.calculate(idx, np.asarray(axis, float), np.asarray(times, float))
            reals.append(np.asarray(v, dtype=float) if np.ndim(v) else np.full(len(times), float(v)))
        except Exception as e:  # noqa: BLE001
            reals.append(L.classify_error(e))
        lines.append(f"irfcalc {L.enc_irf(irf)} {idx} {rats(axis)} {rats(times)}")
    answers = core.lean_driver(PROP, lines)
    for (irf, axis, idx, times), v, ans in zip(cases, reals, answers):
        payload = {"kind": "irfcalc", "irf": irf, "axis": axis, "idx": idx, "times": times}
        ck.case(("irfcalc", json.dumps(payload, sort_keys=True)), nontrivial=len(irf["center"]) + len(irf["width"]) > 2)
        ck.count(f"{tag}:answer:{ans.split(' ')[0]}")
        if ans.startswith("unmodelled:"):
            continue
        compare_matrix(ck, te, ans, v, payload, tag, rtol=1e-10)


def run_retrieve_cases(ck, cases, tag="retrieve"):
    """`util.retrieve_irf` on a bare result dataset: irf, irf_center, irf_width, irf_shift, irf_center_location
    (exact specifications: everything but the irf values is compared as exact rationals)"""
    import xarray as xr
    from glotaran.builtin.megacomplexes.decay.util import retrieve_irf

    te = L.TermEval()
    te.mp.mp.dps = 50
    lines, reals = [], []
    for irf, axis, times in cases:
        try:
            ds, _ = L.build_dataset(irf, {"kind": "parallel", "rates": [1.0]})
        except KeyError:
            continue
        d = xr.Dataset(coords={"time": np.asarray(times, float), "spectral": np.asarray(axis, float)})
        try:
            with np.errstate(all="ignore"):
                retrieve_irf(ds, d, "spectral")
            got = {k: np.asarray(d[k].values, dtype=float) for k in d.data_vars}
        except Exception as e:  # noqa: BLE001
            got = L.classify_error(e)
            if got == "err:other:ValueError" and "conflicting sizes" in str(e):
                got = "err:ValueError:conflicting-sizes"
        reals.append((irf, axis, times, got))
        lines.append(f"retrieve {L.enc_irf(irf)} {rats(axis)} {rats(times)}")
    answers = core.lean_driver(PROP, lines)
    for (irf, axis, times, got), ans in zip(reals, answers):
        payload = {"kind": "retrieve", "irf": irf, "axis": axis, "times": times}
        ck.case(("retrieve", json.dumps(payload, sort_keys=True)), nontrivial=len(axis) >= 2)
        ck.count(f"{tag}:answer:{ans.split(' ')[0]}")
        if ans.startswith("unmodelled:"):
            continue
        if isinstance(got, str) or not ans.startswith("ok "):
            if got != ans if isinstance(got, str) else True:
                ck.disagree(f"{tag}-error-differs", "retrieve_irf: real code and model differ (error / result)",
                            dict(payload, impl=got if isinstance(got, str) else sorted(got), model=ans[:200]))
            continue
        if any(not np.all(np.isfinite(v)) for v in got.values()):
            ck.count(f"{tag}:non-finite")
            continue
        oracle_reported_irf(ck, L.Quad(), irf, axis, times, got["irf"], payload)
        oracle_reported_locations(ck, irf, axis, got, payload)
        t = L.parse_terms("[" + ",".join(ans[3:].split(" ")) + "]")
        irf_terms, centre, width, shift, loc, cd1 = t
        problems = []
        vals = te.matrix(irf_terms)
        if len(vals) != len(got["irf"]) or any(not L.close(te.mp, float(a), v[0], v[1]) for v, a in zip(vals, got["irf"])):
            problems.append("irf")
        fr = lambda x: [core.unrat(y) for y in x]  # noqa: E731
        ex = lambda a: [core.unrat(rat(float(y))) for y in np.ravel(a)]  # noqa: E731
        if ex(got["irf_center"]) != fr(centre):
            problems.append("irf_center")
        if ex(got["irf_width"]) != fr(width):
            problems.append("irf_width")
        if ("irf_shift" in got) != (shift != "none") or ("irf_shift" in got and ex(got["irf_shift"]) != fr(shift)):
            problems.append("irf_shift")
        if ("irf_center_location" in got) != (loc != "none"):
            problems.append("irf_center_location-presence")
        elif loc != "none":
            a = got["irf_center_location"]
            if a.ndim != 2 or [ex(r) for r in a] != [fr(r) for r in loc]:
                problems.append("irf_center_location")
            elif cd1 == "none" or ex(got["center_dispersion_1"]) != fr(cd1):
                problems.append("center_dispersion_1")
        if problems:
            ck.disagree(f"{tag}-differs", "retrieve_irf: result variables differ from the model: " + ",".join(problems),
                        dict(payload, impl={k: v.tolist() for k, v in got.items()}, model=ans[:300]))


def run_result_cases(ck, cases, tag="result"):
    """the observables of a Result: optimize(scheme) with one function evaluation on arbitrary data; the result
    dataset's `matrix` (one slice per global index), `irf`, `irf_center_location`, `irf_shift` against the model"""
    import xarray as xr
    from glotaran.optimization.optimize import optimize
    from glotaran.project import Scheme

    te = L.TermEval()
    te.mp.mp.dps = 50
    q = L.Quad()
    lines, reals = [], []
    for irf, mc, axis, times in cases:
        model, params = L.build_model(irf, mc, vary_rates=True)
        ds0, m0 = L.build_dataset(irf, mc)
        comps = m0.get_compartments(ds0)
        rates = np.asarray(m0.get_k_matrix().rates(comps, m0.get_initial_concentration(ds0)), dtype=float)
        a = np.asarray(m0.get_a_matrix(ds0), dtype=float)
        data = np.outer(np.cos(np.arange(len(times))) + 2.0, np.sin(np.arange(len(axis))) + 2.0)
        dset = xr.DataArray(data, coords=[("time", np.asarray(times, float)), ("spectral", np.asarray(axis, float))]).to_dataset(name="data")
        try:
            scheme = Scheme(model, params, {"d1": dset}, maximum_number_function_evaluations=1)
            res = optimize(scheme, verbose=False, raise_exception=True)
            rd = res.data["d1"]
            got = {"matrix": np.asarray(rd.matrix.transpose(*(("spectral",) if rd.matrix.ndim == 3 else ()), "time", "clp_label").values, float),
                   "labels": [str(x) for x in rd.clp_label.values]}
            for k in ("irf", "irf_center_location", "irf_shift"):
                if k in rd:
                    got[k] = np.asarray(rd[k].values, float)
            k_after = [float(res.optimized_parameters.get(f"p.k{i}").value) for i in range(len(mc["rates"]))]
            if k_after != [float(x) for x in mc["rates"]]:
                got = "skip:parameters-moved"
        except Exception as e:  # noqa: BLE001
            got = L.classify_error(e)
        reals.append((rates, a, list(comps), got))
        lines.append(matrix_line(irf, axis, times, rates, a))
        delta = Fraction(8 * 2.0 ** -53 * L.centre_magnitude(irf, axis))
        lines.append(matrix_line(irf, axis, [Fraction(float(t)) + delta for t in times], rates, a))
        lines.append(f"retrieve {L.enc_irf(irf)} {rats(axis)} {rats(times)}")
    answers = core.lean_driver(PROP, lines)
    for i, ((irf, mc, axis, times), (rates, a, comps, got)) in enumerate(zip(cases, reals)):
        ans, ans_pert, ans_ret = answers[3 * i], answers[3 * i + 1], answers[3 * i + 2]
        payload = {"kind": "result", "irf": irf, "mc": mc, "axis": axis, "times": times}
        ck.case(("result", json.dumps(payload, sort_keys=True)), nontrivial=len(axis) >= 2)
        ck.count(f"{tag}:{irf['type']}")
        if isinstance(got, str):
            ck.count(f"{tag}:{got}")
            if got.startswith("err:"):
                ck.disagree(f"{tag}-raises", "optimize raises for a valid scheme", dict(payload, impl=got))
            continue
        if got["labels"] != comps:
            ck.disagree(f"{tag}-labels", "clp labels of the result matrix differ from the compartments", dict(payload, impl=got["labels"]))
            continue
        compare_matrix(ck, te, ans, got["matrix"], payload, tag, ans_pert=ans_pert)
        oracle_matrix(ck, q, irf, mc, axis, times, got["matrix"], payload, 12)
        if "irf" in got:
            oracle_reported_irf(ck, q, irf, axis, times, got["irf"], payload)
            ck.count(f"{tag}:reported-irf:" + ("shifted" if irf["shift"] is not None and irf["shift"][0] != 0 else "unshifted")
                     + (":dispersed" if irf["type"] in L.SPECTRAL and irf["center_disp"] else ""))
        if not ans_ret.startswith("ok "):
            ck.disagree(f"{tag}-retrieve", "model reports an error for the IRF result variables", dict(payload, model=ans_ret[:200]))
            continue
        irf_terms, _, _, shift, loc, _ = L.parse_terms("[" + ",".join(ans_ret[3:].split(" ")) + "]")
        problems = []
        vals = te.matrix(irf_terms)
        if "irf" not in got or len(vals) != len(got["irf"]) or \
                any(not L.close(te.mp, float(x), v[0], v[1], rtol=1e-10) for v, x in zip(vals, got["irf"])):
            problems.append("irf")

        def near(arr, tree):
            flat_t = [core.unrat(x) for r in tree for x in (r if isinstance(r, list) else [r])]
            flat_a = [float(x) for x in np.ravel(arr)]
            return len(flat_t) == len(flat_a) and all(abs(x - float(y)) <= 1e-12 * max(1.0, abs(float(y))) for x, y in zip(flat_a, flat_t))

        if ("irf_shift" in got) != (shift != "none") or ("irf_shift" in got and not near(got["irf_shift"], shift)):
            problems.append("irf_shift")
        if ("irf_center_location" in got) != (loc != "none") or ("irf_center_location" in got and not near(got["irf_center_location"], loc)):
            problems.append("irf_center_location")
        if problems:
            ck.disagree(f"{tag}-variables-differ", "result variables differ from the model: " + ",".join(problems),
                        dict(payload, impl={k: v.tolist() for k, v in got.items() if k not in ("matrix", "labels")}, model=ans_ret[:300]))


def gen_result_case(rng):
    while True:
        irf, axis = gen_irf_float(rng)
        if irf["backsweep"]:
            continue
        axis = sorted(set(axis))
        if irf["shift"] is not None:
            irf["shift"] = (irf["shift"] + [0.0] * len(axis))[:len(axis)]
        mc = {"kind": pick(rng, ["parallel", "parallel", "sequential"]), "rates": gen_mc(rng)["rates"]}
        times, _ = gen_times(rng, irf, axis, mc["rates"])
        times = sorted(set(times))
        # enough points for a positive number of degrees of freedom (the fit statistics are property C13)
        if len(times) >= 2 * len(mc["rates"]) + 2:
            return irf, mc, axis, times


def exhaustive_param_cases():
    """every combination of: centre/width counts 1..3 x 1..3, scale list absent / 1..4 long, shift list absent /
    0..3 long on a 2-point axis, plain / spectral with dispersion centre absent / present / zero, 0..2 centre and
    0..2 width coefficients, both dispersion variables, back-sweep off / on with / without period (exact values)"""
    cvals, wvals, svals, shvals = [0.5, -1.25, 2.0], [0.25, 1.5, 0.75], [2.0, 0.5, 3.0, 0.25], [0.75, -0.5, 1.25]
    cd, wd = [0.5, -0.25], [0.125, 0.25]
    for nc in (1, 2, 3):
        for nw in (1, 2, 3):
            for ns in (None, 1, 2, 3, 4):
                for nsh in (None, 0, 1, 2, 3):
                    for bs in ((False, None), (True, 8.0), (True, None)):
                        base = L.default_irf(center=cvals[:nc], width=wvals[:nw], scale=None if ns is None else svals[:ns],
                                             shift=None if nsh is None else shvals[:nsh], normalize=True,
                                             backsweep=bs[0], backsweep_period=bs[1])
                        yield dict(base, type="multi-gaussian"), [400.0, 550.0]
                        if bs[0] and bs[1] is None:
                            continue
                        for wn in (False, True):
                            axis = [400.0, 550.0] if not wn else [250.0, 800.0]
                            for dc in (None, 500.0, 0.0):
                                for ncd in (0, 1, 2):
                                    for nwd in (0, 2):
                                        yield dict(base, type="spectral-multi-gaussian", wavenumber=wn,
                                                   dispersion_center=dc, center_disp=cd[:ncd], width_disp=wd[:nwd]), axis


# ------------------------------------------------------------------------------------------
# run / search / replay
# ------------------------------------------------------------------------------------------
def run_case(ck, case, tag):
    kind = case.get("kind")
    if kind in ("param", "indexdep", "dispersion"):
        run_param_cases(ck, [(case["irf"], case["axis"])], tag)
    elif kind == "matrix":
        run_matrix_cases(ck, [(case["irf"], case["mc"], case["axis"], case["times"])], tag, oracle_budget=10 ** 6)
    elif kind == "kernel":
        run_kernel_cases(ck, [(case["rates"], case["times"], case["centers"], case["widths"], case["scales"],
                               case["backsweep"], case["period"])], tag)
    elif kind == "irfcalc":
        run_irfcalc_cases(ck, [(case["irf"], case["axis"], case["idx"], case["times"])], tag)
    elif kind == "retrieve":
        run_retrieve_cases(ck, [(case["irf"], case["axis"], case["times"])], tag)
    elif kind == "result":
        run_result_cases(ck, [(case["irf"], case["mc"], case["axis"], case["times"])], tag)
    else:
        raise core.HarnessError(f"unknown C05 case kind {kind!r}")


def fixed_cases():
    """hand-written boundary cases, run on every run"""
    g = L.default_irf
    out = []
    par2 = {"kind": "parallel", "rates": [0.5, 0.05]}
    # both branches and the exact switch-over for one Gaussian
    out.append((g(center=[1.0], width=[0.5]), par2, [1.0], [-49.0, 0.0, 1.0 + 0.5 * (0.25 - SQRT2), 1.0, 2.0, 501.0]))
    # index i uses the parameters of index i: distinct shifts, unsorted axis
    out.append((g(center=[0.0], width=[0.25], shift=[0.0, 1.0, -2.0, 4.0]), par2, [700.0, 400.0, 550.0, 401.0],
                [-1.0, 0.0, 0.5, 1.0, 3.0]))
    # dispersion of order 3 in both variables
    for wn in (False, True):
        out.append((g(type="spectral-multi-gaussian", center=[0.1, 0.6], width=[0.05], scale=[1.0, 0.3],
                      dispersion_center=500.0, center_disp=[0.2, -0.05, 0.01], width_disp=[0.01, 0.002, -0.001],
                      wavenumber=wn, shift=[0.01, -0.02, 0.03]), par2, [420.0, 500.0, 610.0], [-0.2, 0.0, 0.1, 0.3, 1.0, 5.0]))
    # extremes of rate * width
    out.append((g(center=[0.0], width=[10.0]), {"kind": "parallel", "rates": [1000.0, 1e-4]}, [1.0],
                [-1000.0, -10.0, 0.0, 10.0, 99990.0, 100010.0, 10000.0]))
    out.append((g(center=[0.0], width=[1e-3]), {"kind": "sequential", "rates": [1000.0, 1e-4]}, [1.0],
                [-0.1, -0.001, 0.0, 0.001, 1.0]))
    # no IRF
    out.append((None, {"kind": "general", "rates": [2.0, 0.5]}, [1.0, 2.0], [-1.5, 0.0, 0.5, 1.0, 4.0]))
    # what the compiled code refuses: a zero width (index-independent: ZeroDivisionError, per index: SystemError; nothing when no
    # loop iteration runs), normalize with scales summing to zero (ValueError non-finite; nothing for an empty matrix), an
    # index-dependent IRF on an empty global axis (ValueError of numba)
    out.append((g(center=[1.0], width=[0.0]), par2, [1.0], [0.0, 1.0, 2.0]))
    out.append((g(center=[1.0], width=[0.0]), par2, [1.0], [1.0]))
    out.append((g(center=[1.0], width=[0.0]), par2, [1.0], []))
    out.append((g(center=[1.0], width=[0.5, 0.0], normalize=False), par2, [1.0], [0.0, 1.0, 2.0]))
    out.append((g(center=[1.0], width=[0.0], shift=[0.0, 1.0]), par2, [1.0, 2.0], [0.0, 1.0]))
    out.append((g(type="spectral-multi-gaussian", center=[0.0], width=[0.5], dispersion_center=500.0, width_disp=[-0.5]), par2,
                [500.0, 600.0], [0.0, 1.0]))
    out.append((g(center=[1.0, 2.0], width=[0.5], scale=[1.0, -1.0]), par2, [1.0], [0.0, 1.0, 2.0]))
    out.append((g(center=[1.0, 2.0], width=[0.5], scale=[1.0, -1.0]), par2, [1.0], []))
    out.append((g(center=[1.0, 2.0], width=[0.5], scale=[1.0, -1.0], normalize=False), par2, [1.0], [0.0, 1.0, 2.0]))
    out.append((g(center=[1.0, 2.0], width=[0.5], scale=[0.5, -0.5], shift=[0.0, 0.5]), par2, [1.0, 2.0], [0.0, 1.0, 2.0]))
    out.append((g(center=[1.0], width=[0.5], shift=[]), par2, [], [0.0, 1.0, 2.0]))
    out.append((g(type="spectral-gaussian", center=[1.0], width=[0.5], dispersion_center=500.0, center_disp=[0.1]), par2, [], [0.0, 1.0]))
    out.append((g(center=[1.0], width=[0.5]), par2, [], [0.0, 1.0, 2.0]))
    return out


def degenerate(rng, irf, axis, times):
    """one of the refused specifications, made from a valid one"""
    irf = dict(irf)
    r = rng.random()
    if r < 0.4:
        irf["width"] = list(irf["width"])
        irf["width"][rng.randrange(len(irf["width"]))] = 0.0
        irf["width_disp"] = []
        kind = "zero-width"
    elif r < 0.8:
        n = max(len(irf["center"]), len(irf["width"]))
        a = logu(rng, 0.2, 5.0)
        irf["scale"] = {1: [0.0], 2: [a, -a], 3: [a, a, -2 * a]}[n]      # exact sum 0 (2a is exact in doubles)
        irf["normalize"] = True
        kind = "zero-scale-sum"
    else:
        axis = []
        if irf["shift"] is not None:
            irf["shift"] = []
        kind = "empty-axis"
    if rng.random() < 0.15:
        times = []
    return irf, axis, times, kind


def run(ck):
    rng = ck.rng
    # 1. corpus (regressions of past findings) and fixed boundary cases
    for c in core.load_corpus(PROP):
        ck.count("corpus")
        run_case(ck, c["case"] if "case" in c and "kind" not in c else c, "corpus")
    run_matrix_cases(ck, fixed_cases(), "fixed", oracle_budget=10 ** 6)
    # 2. regime E: parameter plumbing
    run_param_cases(ck, [gen_irf_exact(rng) for _ in range(ck.n(220, 2500))])
    # 3. regime S: calculate_matrix over the property's ranges + malformed specifications
    cases = []
    for i in range(ck.n(170, 2200)):
        irf, axis = gen_irf_float(rng, malformed=(i % 9 == 8))
        mc = gen_mc(rng)
        if irf["backsweep"]:
            mc["rates"] = [min(k, 5.0) for k in mc["rates"]]
            if mc["kind"] != "parallel" and len({*mc["rates"]}) < len(mc["rates"]):
                mc["kind"] = "parallel"
        times, sw = gen_times(rng, irf, axis, mc["rates"])
        if irf["backsweep"] and rng.random() < 0.85:      # inside the sweep period (beyond it exp overflows)
            c0, T = irf["center"][0], irf["backsweep_period"]
            times = [c0 + max(-T, min(T, t - c0)) for t in times]
        ck.count("matrix:switch-over-times", sw)
        if i % 14 == 5 and not irf["backsweep"]:
            irf, axis, times, kind = degenerate(rng, irf, axis, times)
            ck.count(f"matrix:degenerate:{kind}")
        cases.append((irf, mc, axis, times))
    cases.append((None, gen_mc(rng), [1.0], [0.0, 1.0, 2.5]))
    for _ in range(3):       # no IRF: times on both sides of zero (the no-IRF kernel is exp(-k t) for every t, as coded)
        mc0 = gen_mc(rng)
        cases.append((None, mc0, [1.0, 2.0], sorted(rng.uniform(-2.0, 5.0) / max(mc0["rates"]) for _ in range(5))))
    run_matrix_cases(ck, cases, oracle_budget=ck.n(24, 60))
    # 4. the kernel itself (back-sweep, negative widths, both sides of the back-sweep validity threshold)
    run_kernel_cases(ck, [gen_kernel_case(rng) for _ in range(ck.n(120, 1500))])
    # 5. Irf.calculate
    calc = []
    for _ in range(ck.n(40, 400)):
        irf, axis = gen_irf_float(rng)
        gs, _ = L.effective_gaussians(irf, 0, axis)
        c, w = (float(gs[0][0]), float(gs[0][1])) if gs else (0.0, 1.0)
        calc.append((irf, axis, rng.randrange(len(axis)), [c + rng.uniform(-6, 6) * w for _ in range(4)]))
    run_irfcalc_cases(ck, calc)
    # 6. util.retrieve_irf (result variables irf, irf_center, irf_width, irf_shift, irf_center_location)
    ret = []
    for _ in range(ck.n(80, 800)):
        irf, axis = gen_irf_exact(rng)
        if rng.random() < 0.6 and irf["shift"] is not None:
            irf["shift"] = (irf["shift"] + [0.5, -0.25, 1.0, 0.0, 0.25, 2.0])[:len(axis)]
        ret.append((irf, axis, [pick(rng, E_CENTRES) for _ in range(3)]))
    run_retrieve_cases(ck, ret)
    # 7. Result.data[...]: matrix, irf, irf_center_location, irf_shift after optimize() with one evaluation
    run_result_cases(ck, [gen_result_case(rng) for _ in range(ck.n(5, 60))])
    # 8. thorough: the finite space of `parameter` configurations, completely
    if not ck.quick:
        allc = list(exhaustive_param_cases())
        for i in range(0, len(allc), 1500):
            run_param_cases(ck, allc[i:i + 1500], tag="exhaustive")
        ck.extra["exhaustive_streams"] = {"parameter-configurations": len(allc)}
    ck.extra["tolerances"] = {"model_vs_code_rtol_of_scale": L.RTOL, "abs_floor": L.ATOL, "oracle_rtol": 1e-10,
                              "mpmath_dps": 50, "oracle": "64-point Gauss-Legendre, composite"}


def search(ck):
    """widened oracle-only sweep on the real code"""
    rng = ck.rng
    q = L.Quad()
    for i in range(ck.n(300, 1500)):
        irf, axis = gen_irf_float(rng, malformed=(i % 7 == 6))
        mc = {"kind": "parallel", "rates": gen_mc(rng)["rates"]}
        times, _ = gen_times(rng, irf, axis, mc["rates"])
        if irf["backsweep"]:
            continue
        _, _, _, mat = real_matrix(irf, mc, axis, times)
        oracle_matrix(ck, q, irf, mc, axis, times, mat, {"kind": "matrix", "irf": irf, "mc": mc, "axis": axis, "times": times}, 40)
        if ck.violations:
            return
    for _ in range(ck.n(300, 1500)):
        irf, axis = gen_irf_exact(rng)
        item = L.irf_item(irf)
        for gi in [None] + list(range(len(axis))):
            payload = {"kind": "param", "irf": irf, "axis": axis, "gi": gi, "how": "direct"}
            check_param_oracle(ck, payload, L.real_parameter(item, gi, axis))
        if ck.violations:
            return


def replay(ck, case):
    c = case.get("case", case)
    if c.get("kind") is None and "disagreements" in case:
        for d in case["disagreements"]:
            run_case(ck, d["case"], "replay")
        return
    run_case(ck, c, "replay")
    for d in ck.disagreements:
        print(f"DISAGREEMENT {d['key']}: {d['what']}")
