"""CLI: ./check Cxx [--tier quick|thorough] [--replay FILE]   (exit 0 ok / 1 violation / 2 internal)"""
from __future__ import annotations

import argparse
import importlib
import json
import os
import sys
import traceback
import warnings

from harness import core


def main(argv=None) -> int:
    ap = argparse.ArgumentParser()
    ap.add_argument("prop")
    ap.add_argument("--tier", default=os.environ.get("VERIF_TIER", "quick"), choices=["quick", "thorough"])
    ap.add_argument("--replay")
    ap.add_argument("--no-lean", action="store_true", help="debug: skip proof build/audit")
    a = ap.parse_args(argv)
    seed = int(os.environ.get("VERIF_SEED", "0") or 0)
    prop = a.prop.upper()
    try:
        mod = importlib.import_module(f"harness.props.{prop.lower()}")
        ck = core.Check(prop, a.tier, seed)
        if a.replay:
            case = json.loads(open(a.replay).read())
            core.import_glotaran()
            mod.replay(ck, case)
            st = core.ProofStatus()
            for v in ck.violations:
                print(f"VIOLATION property={prop} replay={a.replay}")
            for k, t in ck.known_hits.items():
                print(f"KNOWN-FINDING: property={prop} {t}")
            return 1 if ck.violations else 0
        generated = mod.generate(ck) if hasattr(mod, "generate") else []
        if a.no_lean:
            st = core.ProofStatus()
            # a debugging run must never overwrite the evidence of a real run (evidence without discharged obligations is
            # not valid for the level claimed)
            os.environ.setdefault("VERIF_EVIDENCE_DIR", str(core.VERIF / ".runlogs" / "no-lean-evidence"))
            (core.VERIF / ".runlogs").mkdir(exist_ok=True)
        else:
            st = core.check_proofs(prop, list(getattr(mod, "REQUIRED_THEOREMS", [])), leanchecker=(a.tier == "thorough"))
        st.generated = generated
        core.import_glotaran()
        with warnings.catch_warnings():
            warnings.simplefilter("ignore")
            mod.run(ck)
        return core.finish(ck, mod, st)
    except core.HarnessError as e:
        print(f"[{prop}] INTERNAL harness error: {e}", file=sys.stderr)
        return 2
    except Exception:
        traceback.print_exc()
        print(f"[{prop}] INTERNAL error (not a verdict)", file=sys.stderr)
        return 2


if __name__ == "__main__":
    sys.exit(main())
