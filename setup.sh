#!/bin/sh
# offline setup: vendor mpmath (pure python) next to the harness, build the Lean project
set -e
cd "$(dirname "$0")"
if [ ! -d pydeps/mpmath ]; then
  /venv/bin/pip install --quiet --no-index --find-links /opt/veriftools/wheels --target pydeps mpmath
fi
cd lean && lake build
