#!/bin/sh
# prepare an isolated build workspace for one property: copy of /verif + worktree of /repo
# usage: tools/prep_workspace.sh C08
set -e
P="$1"; W="/tmp/b/$P"
rm -rf "$W"; mkdir -p "$W"
rsync -a --exclude .git --exclude replays --exclude .numba_cache /verif/ "$W/verif/"
git -C /verif rev-parse HEAD > "$W/verif/.base_commit"
git -C /repo worktree prune
git -C /repo worktree add --detach "$W/repo" -q
echo "$W"
