#!/usr/bin/env python3
"""Regenerate MANIFEST.json from tools/manifest_src.json (one entry per property) — keeps the file valid."""
import json, sys
from pathlib import Path
V = Path(__file__).resolve().parent.parent
src = json.loads((V / "tools" / "manifest_src.json").read_text())
props = [json.loads(l)["id"] for l in (V / "properties.jsonl").read_text().splitlines() if l.strip()]
checks, na = [], []
for pid in props:
    e = src["properties"].get(pid)
    if not e or not e.get("claimed"):
        na.append({"property_id": pid, "reason": (e or {}).get("reason", "check not built yet; see DESIGN.md §8 for the planned model and theorems")})
        continue
    checks.append({
        "property_id": pid,
        "quick_cmd": f"./check {pid} --tier quick",
        "thorough_cmd": f"./check {pid} --tier thorough",
        "evidence_file": f"/verif/evidence/{pid}.json",
        "replay_cmd_template": f"./check {pid} --replay {{path}}",
        "engine": "lean4-model+correspondence",
        "level_claimed": {"category": "proof", "text": e["text"], "design_ref": e.get("design_ref", f"DESIGN.md §8 {pid}")},
        "level_note": e["note"],
        "technique": e.get("technique", ("Lean 4 theorems over a hand-written executable model and over Lean tables regenerated from /repo's source on every run (translator) + differential correspondence with the real code"
                                          if any((V / "lean" / "GlotaranModel" / "Generated").glob(f"{pid}*.lean")) else
                                          "Lean 4 theorems over a hand-written executable model + differential correspondence with the real code")),
    })
m = {
    "version": 1,
    "setup_cmd": src["setup_cmd"],
    "hooks": src["hooks"],
    "engines": [dict(en, serves_properties=[c["property_id"] for c in checks]) for en in src["engines"]],
    "checks": checks,
    "not_applicable": na,
    "notes": src["notes"],
}
(V / "MANIFEST.json").write_text(json.dumps(m, indent=1) + "\n")
print(f"{len(checks)} claimed, {len(na)} not claimed")
