#!/bin/sh
# tools/apply_fix.sh <patch> <msg> [placeholder-in-KNOWN_FINDINGS]: apply one fix to /repo as a commit, substitute the hash
set -e
cd /repo && git apply "$1" && git commit -qaF "$2"
H=$(git -C /repo rev-parse --short HEAD)
if [ -n "$3" ]; then sed -i "s/$3/$H/" /verif/KNOWN_FINDINGS.txt; fi
echo "$H $(git -C /repo log -1 --format=%s | cut -c1-100)"
