#!/usr/bin/env python3
"""print python sources without docstrings (reading aid)"""
import ast, sys
for path in sys.argv[1:]:
    tree = ast.parse(open(path).read())
    for node in ast.walk(tree):
        if isinstance(node, (ast.FunctionDef, ast.AsyncFunctionDef, ast.ClassDef, ast.Module)):
            b = node.body
            if b and isinstance(b[0], ast.Expr) and isinstance(b[0].value, ast.Constant) and isinstance(b[0].value.value, str):
                node.body = b[1:] or [ast.Pass()]
    print(f"# ==== {path}")
    print(ast.unparse(tree))
