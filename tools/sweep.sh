#!/bin/sh
# tools/sweep.sh "<seeds>" [jobs] : quick tier of every claimed check for several seeds; prints only failures + a summary
cd "$(dirname "$0")/.."
SEEDS="${1:-1 2 3}"; JOBS="${2:-4}"
mkdir -p .runlogs
python3 - <<'PY' > .runlogs/props.txt
import json
for c in json.load(open('MANIFEST.json'))['checks']: print(c['property_id'])
PY
(cd lean && lake build >/dev/null 2>&1)
for s in $SEEDS; do
  cat .runlogs/props.txt | xargs -P "$JOBS" -I{} sh -c "VERIF_SEED=$s VERIF_EVIDENCE_DIR=.runlogs/ev ./check {} --tier quick > .runlogs/{}.s$s.log 2>&1; rc=\$?; if [ \$rc -ne 0 ]; then echo \"seed=$s {} exit=\$rc \$(grep '^VIOLATION' .runlogs/{}.s$s.log | head -2 | tr '\n' ' ') \$(tail -1 .runlogs/{}.s$s.log | cut -c1-160)\"; fi"
  echo "seed $s done"
done
