#!/bin/sh
# run the repository's stable baseline in REPO (default /repo) and report tests of BASELINE.stable_pass that do not pass
REPO="${1:-/repo}"
OUT="$(mktemp -d)"
cd "$REPO" && env -u GLOTARAN_PYGLOTARAN_VERIF PATH="/venv/bin:$PATH" /venv/bin/python -m pytest -ra -q -p no:cacheprovider --timeout=900 --continue-on-collection-errors --junitxml="$OUT/j.xml" >"$OUT/log" 2>&1
/venv/bin/python - "$OUT/j.xml" <<'PY'
import json,sys,xml.etree.ElementTree as ET
base=set(json.load(open('/root/.vp/BASELINE.json'))['stable_pass'])
ok=set()
for tc in ET.parse(sys.argv[1]).getroot().iter('testcase'):
    if not any(c.tag in('failure','error','skipped') for c in tc):
        ok.add(f"{tc.get('classname')}::{tc.get('name')}")
missing=sorted(base-ok)
print(f"stable_pass={len(base)} passing_now={len(base&ok)} missing={len(missing)}")
for m in missing[:40]: print("  NOT PASSING:",m)
sys.exit(1 if missing else 0)
PY
rc=$?
rm -rf "$OUT"
exit $rc
