#!/usr/bin/env python3
"""Run the registered checks against the seeded changes kept in /verif/seeded/<id>/.

For every seeded change: apply patch.diff to a scratch worktree of /repo's HEAD (outside /repo and /verif),
run the demonstration (must fail with the change) and the quick check of the property it breaks (must exit 1
with a VIOLATION line), then remove the worktree.  Usage:  tools/run_seeded.py [id ...] [--tier thorough]
Writes seeded/RESULTS.json (a summary; not evidence).
"""
import json
import os
import shutil
import subprocess
import sys
import tempfile
import time
from pathlib import Path

V = Path(__file__).resolve().parent.parent
ids = [a for a in sys.argv[1:] if not a.startswith("--")]
tier = "thorough" if "--tier" in sys.argv and sys.argv[sys.argv.index("--tier") + 1] == "thorough" else "quick"
seeds = sorted(p for p in (V / "seeded").iterdir() if p.is_dir() and (not ids or p.name in ids))
results = {}
if (V / "seeded" / "RESULTS.json").exists():
    results = json.loads((V / "seeded" / "RESULTS.json").read_text())
for sd in seeds:
    meta = json.loads((sd / "meta.json").read_text())
    prop = meta["property"]
    wt = Path(tempfile.mkdtemp(prefix="seedrun_")) / "repo"
    try:
        subprocess.run(["git", "-C", "/repo", "worktree", "add", "--detach", str(wt), "-q"], check=True)
        ap = subprocess.run(["git", "-C", str(wt), "apply", str(sd / "patch.diff")], capture_output=True, text=True)
        if ap.returncode != 0:
            results[sd.name] = {"property": prop, "status": "patch-does-not-apply", "detail": ap.stderr[-300:]}
            print(sd.name, "PATCH DOES NOT APPLY")
            continue
        env = dict(os.environ, PYTHONPATH=str(wt), VERIF_REPO=str(wt), VERIF_EVIDENCE_DIR=str(wt.parent / "evidence"))
        demo = subprocess.run(["/venv/bin/python", str(sd / "demo.py")], cwd=str(wt), env=env, capture_output=True, text=True, timeout=1800)
        t0 = time.time()
        checks = meta.get("checks", [prop])
        caught_by = []
        outs = {}
        for c in checks:
            r = subprocess.run([str(V / "check"), c, "--tier", tier], cwd=str(V), env=dict(env, VERIF_SEED=os.environ.get("VERIF_SEED", "0")),
                               capture_output=True, text=True, timeout=7200)
            viol = [l for l in r.stdout.splitlines() if l.startswith("VIOLATION")]
            outs[c] = {"exit": r.returncode, "violations": viol[:5], "tail": r.stdout.splitlines()[-1:] + r.stderr.splitlines()[-2:]}
            if r.returncode == 1 and viol:
                caught_by.append(c + ("(no-failing-input-found)" if all("no-failing-input-found" in v for v in viol) else ""))
        results[sd.name] = {"property": prop, "demo_exit_with_change": demo.returncode, "caught_by": caught_by,
                            "checks": outs, "tier": tier, "wall_s": round(time.time() - t0, 1)}
        print(sd.name, prop, "demo_exit", demo.returncode, "CAUGHT by " + ",".join(caught_by) if caught_by else "MISSED", flush=True)
    finally:
        subprocess.run(["git", "-C", "/repo", "worktree", "remove", "--force", str(wt)], capture_output=True)
        shutil.rmtree(wt.parent, ignore_errors=True)
        shutil.rmtree(V / "replays", ignore_errors=True)
(V / "seeded" / "RESULTS.json").write_text(json.dumps(results, indent=1, sort_keys=True) + "\n")
