#!/usr/bin/env python3
"""Write seeded/README.md: one row per seeded change (what, what it needs, which checks catch it, how) from
seeded/SUMMARY.json, seeded/<id>/meta.json and seeded/RESULTS.json."""
import json
from pathlib import Path
V = Path(__file__).resolve().parent.parent
S = json.loads((V / "seeded" / "SUMMARY.json").read_text())
R = json.loads((V / "seeded" / "RESULTS.json").read_text()) if (V / "seeded" / "RESULTS.json").exists() else {}
rows = ["| id | change | needs | confirmed (demo fails / suite passes) | caught by (quick tier) |", "|---|---|---|---|---|"]
for sid in sorted(S):
    what, needs = S[sid]
    m = V / "seeded" / sid / "meta.json"
    meta = json.loads(m.read_text()) if m.exists() else {}
    conf = "yes" if meta.get("confirmed") else "NO"
    r = R.get(sid, {})
    if r.get("status"):
        caught = r["status"]
    elif r:
        caught = ", ".join(r.get("caught_by", [])) or "MISSED"
    else:
        caught = "(not run yet)"
    rows.append(f"| {sid} | {what} | {needs} | {conf} | {caught} |")
(V / "seeded" / "README.md").write_text(
    "# Seeded changes\n\nIndependently written changes to glotaran/pyglotaran that break one property each while the existing\n"
    "test-suite still passes (written by sub-agents that saw only the property text and a scratch worktree).\n"
    "`patch.diff` applies to /repo HEAD, `demo.py` exits 0 without and non-zero with the change, `meta.json` records what was run.\n"
    "`tools/run_seeded.py` applies each to a scratch worktree and runs the quick check of its property (RESULTS.json).\n\n"
    + "\n".join(rows) + "\n")
print(len(rows) - 2, "rows")
