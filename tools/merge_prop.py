#!/usr/bin/env python3
"""merge the files of one property from a build workspace /tmp/b/<P>/verif into /verif"""
import json, re, shutil, subprocess, sys
from pathlib import Path
P = sys.argv[1]
import os
W = Path(f"/tmp/b/{os.environ.get('MERGE_WS', P)}/verif")
V = Path("/verif")
copied = []
def cp(src, dst):
    dst.parent.mkdir(parents=True, exist_ok=True)
    shutil.copy2(src, dst); copied.append(str(dst.relative_to(V)))
for pat in [f"lean/GlotaranModel/{P}*.lean", f"lean/GlotaranModel/Generated/{P}*.lean", f"lean/GlotaranProofs/Lemmas/{P}*.lean",
            f"lean/GlotaranProofs/Props/{P}*.lean", f"harness/props/{P.lower()}*.py", f"harness/props/_{P.lower()}*.py",
            f"harness/{P.lower()}_*.py", f"corpus/{P}/*"]:
    for f in W.glob(pat):
        if f.is_file():
            cp(f, V / f.relative_to(W))
# other new files in harness/ and lean/ not present in /verif (report only)
for sub in ("harness", "lean/GlotaranModel", "lean/GlotaranProofs", "tools", "corpus"):
    for f in (W / sub).rglob("*"):
        if f.is_file() and "__pycache__" not in f.parts and ".lake" not in f.parts:
            rel = f.relative_to(W)
            if not (V / rel).exists() and str(V / rel) not in [str(V / c) for c in copied]:
                print("EXTRA (not copied):", rel)
# fixes
if (W / "fixes").is_dir():
    for f in (W / "fixes").iterdir():
        if f.is_file():
            cp(f, V / "fixes" / P / f.name)
    if (W / "fixes" / P).is_dir():
        for f in (W / "fixes" / P).iterdir():
            if f.is_file():
                cp(f, V / "fixes" / P / f.name)
# Main.lean dispatch line(s), imports
def merge_lines(rel, pred):
    src = (W / rel).read_text().splitlines()
    dst = (V / rel).read_text().splitlines()
    add = [l for l in src if pred(l) and l not in dst]
    return add
main_add = merge_lines("lean/Main.lean", lambda l: f'"{P}"' in l)
if main_add:
    s = (V / "lean/Main.lean").read_text()
    s = s.replace("  | _ => IO.eprintln", "\n".join(main_add) + "\n  | _ => IO.eprintln")
    (V / "lean/Main.lean").write_text(s); print("Main.lean +", main_add)
for rel in ("lean/GlotaranModel.lean", "lean/GlotaranProofs.lean"):
    add = merge_lines(rel, lambda l: l.startswith("import") and P in l)
    if add:
        with open(V / rel, "a") as fh:
            fh.write("\n".join(add) + "\n")
        print(rel, "+", add)
# manifest entry
ws = json.loads((W / "tools/manifest_src.json").read_text())
vs = json.loads((V / "tools/manifest_src.json").read_text())
if P in ws["properties"]:
    vs["properties"][P] = ws["properties"][P]
    (V / "tools/manifest_src.json").write_text(json.dumps(vs, indent=1) + "\n")
    print("manifest entry merged")
# known findings lines
wk = (W / "KNOWN_FINDINGS.txt").read_text().splitlines()
vk = (V / "KNOWN_FINDINGS.txt").read_text().splitlines()
new = [l for l in wk if l.strip() and l not in vk and f"property={P} " in l]
if new:
    with open(V / "KNOWN_FINDINGS.txt", "a") as fh:
        fh.write("\n".join(new) + "\n")
    print("KNOWN_FINDINGS +", len(new))
print("copied:", *copied, sep="\n  ")
# every tracked file the builder changed relative to the base commit of the workspace (report only)
BASE = (W / ".base_commit").read_text().strip() if (W / ".base_commit").exists() else (sys.argv[2] if len(sys.argv) > 2 else None)
if BASE:
    tracked = subprocess.run(["git", "-C", str(V), "ls-tree", "-r", "--name-only", BASE], capture_output=True, text=True).stdout.split("\n")
    for rel in tracked:
        if not rel or rel.startswith(("evidence/", "replays/")):
            continue
        a = W / rel
        if not a.exists():
            print("DELETED IN WORKSPACE:", rel); continue
        base = subprocess.run(["git", "-C", str(V), "show", f"{BASE}:{rel}"], capture_output=True).stdout
        if a.read_bytes() != base and str(V / rel) not in [str(V / c) for c in copied]:
            print("CHANGED vs BASE (not copied):", rel)
# diff of shared files the builder may have changed
for rel in ("harness/core.py", "harness/gen_scheme.py", "harness/main.py", "lean/GlotaranModel/Proto.lean", "check", "setup.sh", "lean/lakefile.toml", "tools/mkmanifest.py"):
    a, b = W / rel, V / rel
    if a.exists() and b.exists() and a.read_bytes() != b.read_bytes():
        print("SHARED FILE DIFFERS:", rel)
