#!/bin/sh
# run every claimed check (quick by default) in parallel and print one line per property
# usage: tools/run_all.sh [quick|thorough] [jobs]
cd "$(dirname "$0")/.."
TIER="${1:-quick}"; JOBS="${2:-6}"
mkdir -p .runlogs
python3 - <<'PY' > .runlogs/props.txt
import json
for c in json.load(open('MANIFEST.json'))['checks']: print(c['property_id'])
PY
(cd lean && lake build >/dev/null 2>&1)
cat .runlogs/props.txt | xargs -P "$JOBS" -I{} sh -c "./check {} --tier $TIER > .runlogs/{}.$TIER.log 2>&1; echo \"{} exit=\$? \$(grep -c '^VIOLATION' .runlogs/{}.$TIER.log) violations; \$(tail -1 .runlogs/{}.$TIER.log)\""
