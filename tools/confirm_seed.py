#!/usr/bin/env python3
"""Confirm one independently written property-breaking change and keep it under /verif/seeded/<id>/.

usage: tools/confirm_seed.py <srcdir with patch.diff demo.py notes.md> <id> <property>
Steps (all in a scratch worktree of /repo HEAD outside /repo and /verif, removed afterwards):
  1. demo.py on the clean tree must exit 0          2. patch applies
  3. demo.py with the patch must exit non-zero      4. the repository's test suite still passes with the patch
Writes seeded/<id>/{patch.diff,demo.py,meta.json}; meta.json records what was run and the outcomes.
"""
import json, os, shutil, subprocess, sys, tempfile, time
from pathlib import Path

V = Path(__file__).resolve().parent.parent
src, sid, prop = Path(sys.argv[1]), sys.argv[2], sys.argv[3]
dst = V / "seeded" / sid
dst.mkdir(parents=True, exist_ok=True)
shutil.copy2(src / "patch.diff", dst / "patch.diff")
shutil.copy2(src / "demo.py", dst / "demo.py")
notes = (src / "notes.md").read_text() if (src / "notes.md").exists() else ""
wt = Path(tempfile.mkdtemp(prefix="seedconf_")) / "repo"
meta = {"id": sid, "property": prop, "notes": notes, "confirmed": False}
env = dict(os.environ, PYTHONPATH=str(wt), PATH="/venv/bin:" + os.environ["PATH"], PYTHONDONTWRITEBYTECODE="1")
env.pop("GLOTARAN_PYGLOTARAN_VERIF", None)
try:
    subprocess.run(["git", "-C", "/repo", "worktree", "add", "--detach", str(wt), "-q"], check=True)
    meta["repo_head"] = subprocess.run(["git", "-C", str(wt), "rev-parse", "--short", "HEAD"], capture_output=True, text=True).stdout.strip()
    r0 = subprocess.run(["/venv/bin/python", str(dst / "demo.py")], cwd=str(wt), env=env, capture_output=True, text=True, timeout=1800)
    meta["demo_exit_clean"] = r0.returncode
    ap = subprocess.run(["git", "-C", str(wt), "apply", str(dst / "patch.diff")], capture_output=True, text=True)
    meta["patch_applies"] = ap.returncode == 0
    if ap.returncode == 0:
        r1 = subprocess.run(["/venv/bin/python", str(dst / "demo.py")], cwd=str(wt), env=env, capture_output=True, text=True, timeout=1800)
        meta["demo_exit_with_change"] = r1.returncode
        meta["demo_tail_with_change"] = (r1.stdout + r1.stderr)[-600:]
        t0 = time.time()
        cmd = ["/venv/bin/python", "-m", "pytest", "-q", "-p", "no:cacheprovider", "--timeout=900", "--continue-on-collection-errors", "-n", "4"]
        rs = subprocess.run(cmd, cwd=str(wt), env=env, capture_output=True, text=True, timeout=7200)
        tail = [l for l in rs.stdout.splitlines() if l.strip()][-1:]
        meta["suite_cmd"] = "PATH=/venv/bin:$PATH " + " ".join(cmd)
        meta["suite_exit_with_change"] = rs.returncode
        meta["suite_summary"] = tail[0] if tail else ""
        meta["suite_wall_s"] = round(time.time() - t0)
        meta["confirmed"] = (r0.returncode == 0 and r1.returncode != 0 and rs.returncode == 0)
finally:
    subprocess.run(["git", "-C", "/repo", "worktree", "remove", "--force", str(wt)], capture_output=True)
    shutil.rmtree(wt.parent, ignore_errors=True)
(dst / "meta.json").write_text(json.dumps(meta, indent=1) + "\n")
print(sid, "CONFIRMED" if meta["confirmed"] else "NOT CONFIRMED", {k: meta.get(k) for k in ("demo_exit_clean", "patch_applies", "demo_exit_with_change", "suite_exit_with_change", "suite_summary")})
